"""Driver E (timing): single containers on a real ResourcePool, any tick rate 1..100000, all seven
scaling laws, 1..64 cpus, zero/tiny durations, allocations around the peak (C05).

The harness proposes per-segment tick counts as certificates (exact rational arithmetic; sqrt by
integer square root, log by 50-digit decimals).  TraceTiming.tla re-decides every certificate with
its own exact predicates before using it, so an error here is a machinery failure, never a pass.
"""
from __future__ import annotations

import math
import random
from decimal import Decimal, getcontext
from fractions import Fraction as F

from . import common

LAWS = ["const", "log", "sqrt", "linear3", "linear7", "squared", "exp"]
TPS_GRID = [1, 2, 3, 7, 10, 60, 100, 1000, 10**4, 10**5]
CPUS = [1, 2, 3, 4, 5, 7, 8, 16, 64, F(1, 2), F(3, 2), F(5, 2), F(7, 2), F(13, 2)]      # a scheduler may ask for fractional cpus


def divisor(law, c):
    return {"const": 1, "linear3": min(c, 3), "linear7": min(c, 7), "squared": c * c, "exp": (2 ** c if c < 4 else 16)}[law]


def rational_scale(law, c):
    """scale(law, cpus) as a Fraction when it is rational, else None (sqrt always; exp for half-integers below 4)."""
    c = F(c)
    if law in ("const", "linear3", "linear7", "squared"):
        return F(divisor(law, c))
    if law == "exp":
        if c >= 4:
            return F(16)
        return F(2 ** int(c)) if c.denominator == 1 else None
    return None


def cpu_ticks_exact(law, c, base: F, tps: int) -> int:
    if base == 0:
        return 0
    rs = rational_scale(law, c)
    if rs is not None:
        return math.floor(base * tps / rs)
    if law in ("sqrt", "exp"):
        sq = F(c) if law == "sqrt" else F(2) ** (2 * int(F(c)) + 1)          # scale^2
        x = (base * tps) ** 2 / sq
        return math.isqrt(x.numerator // x.denominator)
    getcontext().prec = 60
    v = Decimal(base.numerator) / Decimal(base.denominator) * tps / (Decimal(c).ln() + 1)
    return int(v.to_integral_value(rounding="ROUND_FLOOR"))


def dec(x: F, places=6) -> F:
    """Round to a decimal with `places` digits (so that float(x) is the double nearest to a short decimal)."""
    q = 10 ** places
    return F(round(x * q), q)


def gen_case(rng: random.Random):
    tps = rng.choice(TPS_GRID) if rng.random() < 0.8 else rng.randint(1, 100000)
    cpus = rng.choice(CPUS)
    budget = 1500          # ticks per segment at most (the real container is stepped tick by tick)
    ops = []
    peak = F(0)
    for _ in range(rng.randint(1, 4)):
        segs = []
        for _ in range(rng.choice([1, 1, 2, 3])):
            law = rng.choice(LAWS)
            # CPU: aim at T (+ offset) ticks on this many cpus
            T = rng.choice([0, 0, 1, 2, 3, 5, 17, rng.randint(0, budget)])
            off = F(0) if rng.random() < 0.06 else rng.choice([F(1, 4), F(1, 2), F(999, 1000)])
            if law == "log" and F(cpus).denominator != 1:
                law = "const"                  # the ln table covers whole cpu counts only
            scale = {"log": math.log(cpus) + 1, "sqrt": math.sqrt(cpus)}.get(law) or float(divisor(law, float(cpus)))
            base = dec((T + off) * F(scale).limit_denominator(10**6) / tps)
            if base > 1000:        # keep numerators below 2^31 for the JSON/TLC integers
                base = dec(F(rng.randint(0, 10**6), 1000))
                if cpu_ticks_exact(law, cpus, base, tps) > budget:
                    base = dec(F(budget, 2) * F(scale).limit_denominator(10**6) / tps)
                    if base > 1000:
                        base = F(0)
            if rng.random() < 0.15:
                base = rng.choice([F(0), F(1, 10**4), F(1, 10), F(1), F(15), F(80)])
                if cpu_ticks_exact(law, cpus, base, tps) > budget:
                    base = F(0)
            # I/O: read so that about K (+ offset) ticks
            K = rng.choice([0, 0, 1, 2, 4, 9, rng.randint(0, min(budget, 100 * tps))])     # at most 2000 GB
            read = F(round((K + (F(0) if rng.random() < 0.06 else rng.choice([F(1, 4), F(1, 2)]))) * 20000 / tps), 1000) if K or rng.random() < 0.3 else F(0)
            if rng.random() < 0.1:
                read = rng.choice([F(12), F(55), F(10), F(375, 10), F(1, 1000)])
                if read * tps / 20 > budget:
                    read = F(0)
            fixed = rng.choice([None, None, None, F(0), F(1, 2), F(1337, 100), read])
            segs.append({"law": law, "base": base, "read": read, "fixed": fixed})
            peak = max(peak, fixed if fixed is not None else read)
        ops.append(segs)
    # allocation around the peak (exactly the peak, a hair below/above, generous, tiny) - 3 decimals
    choice = rng.random()
    if choice < 0.35:
        ram = peak * 2 + 1
    elif choice < 0.55:
        ram = peak if peak > 0 else F(1)
    elif choice < 0.7:
        ram = max(F(1, 1000), peak - F(1, 1000))
    elif choice < 0.8:
        ram = peak + F(1, 1000)
    else:
        ram = max(F(1, 1000), dec(peak * F(rng.randint(1, 99), 100), 3))
    ram = dec(ram, 3)
    if ram <= 0:
        ram = F(1, 1000)
    case = {"tps": tps, "cpus": cpus, "ram": ram, "ops": ops}
    if rng.random() < 0.2:
        # a sweep: the caller defines the segment shapes ONCE and runs the same Segment objects first at another tick rate (mostly on the
        # same number of cpus), then in the measured container - anything a Segment remembers from one run must not leak into the next
        case["warm"] = [rng.choice([tps * 2, tps * 10, max(1, tps // 2), max(1, tps // 10), tps + 1]),
                        int(2 * (cpus if rng.random() < 0.8 else rng.choice(CPUS)))]
    return case


def run_case(case, tid):
    """Run one container on a real ResourcePool; returns the trace line (dict)."""
    from eudoxia.executor.resource_pool import ResourcePool
    from eudoxia.executor.assignment import Assignment
    from eudoxia.workload import Pipeline
    from eudoxia.workload.pipeline import Segment
    from eudoxia.utils import Priority

    tps, cpus, ram = case["tps"], case["cpus"], case["ram"]
    shapes = [[Segment(baseline_cpu_seconds=float(sg["base"]), cpu_scaling=sg["law"],
                       memory_gb=None if sg["fixed"] is None else float(sg["fixed"]),
                       storage_read_gb=float(sg["read"])) for sg in segs] for segs in case["ops"]]
    if case.get("warm"):
        _warm_up(shapes, case, tid)
    p = Pipeline(f"t{tid}", Priority.BATCH_PIPELINE)
    ops, jops = [], []
    prev = None
    for segs, objs in zip(case["ops"], shapes):
        o = p.new_operator([prev] if prev else None)
        js = []
        for sg, obj in zip(segs, objs):
            o.add_segment(obj)
            js.append({"law": sg["law"], "bnum": sg["base"].numerator, "bden": sg["base"].denominator,
                       "read": int(sg["read"] * 1000), "fixed": -1 if sg["fixed"] is None else int(sg["fixed"] * 1000),
                       "tio": math.floor(sg["read"] * tps / 20), "tcpu": cpu_ticks_exact(sg["law"], cpus, sg["base"], tps)})
        ops.append(o)
        jops.append({"segs": js})
        prev = o
    p.runtime_status()
    cpus_real = int(cpus) if F(cpus).denominator == 1 else float(cpus)
    pool = ResourcePool(pool_id=0, cpu_pool=cpus_real, ram_pool=float(ram * 2 + 1), ticks_per_second=tps)
    total = sum(g["tio"] + g["tcpu"] for o in jops for g in o["segs"]) + len(ops) + 5
    want = set(range(1, 4)) | {max(1, total // 2)}
    for o in jops:          # phase boundaries +-1
        acc = 0
        for g in o["segs"]:
            want |= {acc + g["tio"], acc + g["tio"] + 1, acc + g["tio"] + g["tcpu"]}
            acc += g["tio"] + g["tcpu"]
    obs = {"done": [0] * len(ops), "endt": 0, "kind": "raise", "exc": "", "ost": [], "mem": []}
    ndone = 0
    try:
        a = Assignment(ops, cpus_real, float(ram), Priority.BATCH_PIPELINE, 0, p.pipeline_id)
        res = pool.run_one_tick([], [a])
        t = 1
        while True:
            while ndone < len(ops) and ops[ndone].state().value == "completed":
                obs["done"][ndone] = t
                ndone += 1
            if res:
                obs["kind"] = "oom" if res[0].error else "ok"
                obs["endt"] = t
                break
            if (t in want or t % 997 == 0) and pool.active_containers and len(obs["mem"]) < 40:
                obs["mem"].append([t, round(pool.active_containers[0].get_current_memory_usage() * 10**5)])
            if t > total + 10:
                obs["kind"], obs["exc"] = "raise", "container did not end"
                obs["endt"] = t
                break
            res = pool.run_one_tick([], [])
            t += 1
    except BaseException as e:  # noqa: BLE001
        obs["kind"], obs["exc"] = "raise", f"{type(e).__name__}: {str(e)[:80]}"
    obs["ost"] = [o.state().value for o in ops]
    line = {"tid": tid, "tps": tps, "c2": int(F(cpus) * 2), "ram": int(ram * 1000), "ops": jops, "obs": obs}
    if case.get("warm"):
        line["warm"] = list(case["warm"])
    return line


def _warm_up(shapes, case, tid):
    """The same Segment objects in another pipeline, run to the end in a pool with another tick rate (outcome not recorded)."""
    from eudoxia.executor.resource_pool import ResourcePool
    from eudoxia.executor.assignment import Assignment
    from eudoxia.workload import Pipeline
    from eudoxia.utils import Priority
    tps2, c2w = case["warm"]
    cw = F(c2w, 2)
    cw = int(cw) if cw.denominator == 1 else float(cw)
    try:
        p = Pipeline(f"w{tid}", Priority.BATCH_PIPELINE)
        ops, prev = [], None
        for objs in shapes:
            o = p.new_operator([prev] if prev else None)
            for obj in objs:
                o.add_segment(obj)
            ops.append(o)
            prev = o
        p.runtime_status()
        pool = ResourcePool(pool_id=0, cpu_pool=cw, ram_pool=float(case["ram"] * 2 + 1), ticks_per_second=tps2)
        res = pool.run_one_tick([], [Assignment(ops, cw, float(case["ram"]), Priority.BATCH_PIPELINE, 0, p.pipeline_id)])
        for _ in range(20000):
            if res:
                break
            res = pool.run_one_tick([], [])
    except BaseException:  # noqa: BLE001  (the warm-up only has to touch the objects)
        pass


SUSP_RATES = [1, 2, 3, 5, 7, 10, 60, 100, 1000, 10**4, 10**5, 16384, 30000, 44100, 48000, 60000, 65536, 70000, 90000, 99999]


def susp_case(rng, tid):
    """C10 at any tick rate: a two-operator container is suspended after its first operator; how many calls of the pool does the write-out take?"""
    from eudoxia.executor.resource_pool import ResourcePool
    from eudoxia.executor.assignment import Assignment, Suspend
    from eudoxia.workload import Pipeline
    from eudoxia.workload.pipeline import Segment
    from eudoxia.utils import Priority
    tps = rng.choice(SUSP_RATES) if rng.random() < 0.8 else rng.randint(1, 100000)
    K = rng.choice([0, 0, 1, 2, 3, 7, 40, rng.randint(0, 400), rng.randint(0, 3000)])          # target length in ticks
    K = min(K, 100 * tps)                                                                         # at most 2000 GB
    off = rng.choice([F(0), F(0), F(1, 4), F(1, 2), F(9, 10), -F(1, 1000)])
    ram = dec(max(F(1, 10**6), (K + off) * 20 / tps), 6)
    if ram > 2000:
        ram = F(2000)
    return susp_run(tps, int(ram * 10**6), tid)


def susp_run(tps, ram_micro, tid):
    from eudoxia.executor.resource_pool import ResourcePool
    from eudoxia.executor.assignment import Assignment, Suspend
    from eudoxia.workload import Pipeline
    from eudoxia.workload.pipeline import Segment
    from eudoxia.utils import Priority
    ram = F(ram_micro, 10**6)
    cert = math.floor(ram * tps / 20)
    p = Pipeline(f"s{tid}", Priority.BATCH_PIPELINE)
    a = p.new_operator()
    a.add_segment(Segment(baseline_cpu_seconds=float(F(5, 4 * tps)), cpu_scaling="const", memory_gb=0.0, storage_read_gb=0.0))
    b = p.new_operator([a])
    b.add_segment(Segment(baseline_cpu_seconds=float(F(9, 4 * tps)), cpu_scaling="const", memory_gb=0.0, storage_read_gb=0.0))
    p.runtime_status()
    cap_cpu, cap_ram = 4, float(ram * 2 + 1)
    pool = ResourcePool(pool_id=0, cpu_pool=cap_cpu, ram_pool=cap_ram, ticks_per_second=tps)
    out = {"kind": "susp", "tid": tid, "tps": tps, "ram": ram_micro, "cert": cert, "ticks": -1, "kept": True, "freed": False, "exc": "", "ost": []}
    try:
        pool.run_one_tick([], [Assignment([a, b], 2, float(ram), Priority.BATCH_PIPELINE, 0, p.pipeline_id)])
        c = pool.active_containers[0]
        guard = 0
        while not c.can_suspend_container() and guard < 10:
            pool.run_one_tick([], [])
            guard += 1
        free = (pool.avail_cpu_pool, pool.avail_ram_pool)
        n = 0
        pool.run_one_tick([Suspend(c.container_id, 0)], [])
        n += 1
        while c in pool.suspending_containers and n <= cert + 5:
            if (pool.avail_cpu_pool, pool.avail_ram_pool) != free:
                out["kept"] = False
            pool.run_one_tick([], [])
            n += 1
        out["ticks"] = n if c in pool.suspended_containers else -1
        out["freed"] = pool.avail_cpu_pool == cap_cpu and abs(pool.avail_ram_pool - cap_ram) <= 1e-9 * cap_ram
    except BaseException as e:  # noqa: BLE001
        out["exc"] = f"{type(e).__name__}: {str(e)[:80]}"
    out["ost"] = [a.state().value, b.state().value]
    return out


def _chunk(args):
    seed, tid0, n = args[:3]
    susp_only = len(args) > 3 and args[3]
    common.import_repo()
    rng = random.Random(seed)
    out = []
    for i in range(n):
        if susp_only or i % 8 == 7:
            out.append([susp_case(rng, tid0 + i)])
        else:
            out.append([run_case(gen_case(rng), tid0 + i)])
    return out


def gen_lines(n, seed, procs=None, susp_only=False):
    import multiprocessing as mp
    per = max(1, n // 64)
    jobs = [(seed * 1000003 + i, i * per, per, susp_only) for i in range((n + per - 1) // per)]
    with common.pool(procs or common.NCPU) as pool:
        out = pool.map(_chunk, jobs)
    return [x for ch in out for x in ch]


def check(rep, tier, only="C05"):
    """Run the closed-form check (C05: one container; C10: one write-out) and add the clauses of property `only` to the report."""
    import json
    n = 6000 if tier == "quick" else 150000
    if only == "C10":
        n = n // 4
    lines = gen_lines(n, common.seed() + (10 if only == "C10" else 0), susp_only=(only == "C10"))
    files = common.write_shards(lines, common.NCPU, "timing")
    mon = common.run_monitor("TraceTiming", "TraceTiming.cfg", files)
    byid = {ln[0]["tid"]: ln[0] for ln in lines}
    if mon.notes:
        pass
    for v in mon.viols:
        if not str(v[2]).startswith(only + "."):
            continue
        case = byid.get(v[0])
        rep.violation(v[2], {"tid": v[0], "detail": v[3], "case": case}, replay={"kind": "timing", "case": case}, sig={"clause": v[2]})
    rep.extra["timing"] = mon.counters
    rep.extra["timing_containers"] = mon.traces
    rep.samples.append({"timing_case": lines[3][0]})
    c = mon.counters
    need = {"success": 500, "oom_strict": 200, "mem_samples": 2000, "zero_tick_operators": 100, "rate_ge_1000": 500} if only == "C05" else {"suspensions_timed": 200, "rate_ge_1000": 150}
    lack = {k: c.get(k, 0) for k, m in need.items() if c.get(k, 0) < m}
    if lack and not mon.viols:
        raise common.MachineryError(f"vacuity: timing run did not reach {lack}")
    return mon
