"""Checks of the policy family (C08, C12, C16, C17, C18):

  model side   : MC_Sched_*.cfg - the transcribed policies composed with the executor operators, all small
                 workloads, contracts as invariants
  binding side : seeded scenarios through the REAL scheduler functions inside the unmodified run_simulator,
                 every round validated by TraceSched.tla (contracts) and, for C08, stepped by TraceExec.tla
"""
from __future__ import annotations

import json
import re
from collections import Counter

from . import common, driver_sched
from .common import Report, MachineryError, SPEC

MODEL = {
    # property -> (quick configurations, additional ones in the thorough tier); *k: with kills from outside (Sched.tla, KillFromOutside)
    "C08": (["naive2s", "over1", "pr1", "pp", "starter"], ["naive2", "naive1", "over", "pr", "pr2", "prs", "naive2sk", "over1k", "pr1k", "ppk"]),
    "C17": (["naive2", "naive2s", "naive1", "naive2sk"], ["naive2k"]),
    "C18": (["over", "over1", "over1k"], []),
    "C12": (["pr1", "pp"], ["pr", "pr2", "prs", "pr1k", "ppk"]),
    "C16": (["pp"], ["ppk"]),
}
# the configurations whose every initial state is also executed by the real code (without the kills: those are the drivers' business)
XCFG = {p: ([c for c in q if not c.endswith("k")], [c for c in t if not c.endswith("k")]) for p, (q, t) in MODEL.items()}
POLICIES = {
    "C08": ["naive", "priority", "priority-pool", "overbook", "starter"],
    "C12": ["priority", "priority-pool"],
    "C16": ["priority-pool"],
    "C17": ["naive"],
    "C18": ["overbook"],
}
NTRACES = {"quick": 480, "thorough": 12000}
NEEDS = {
    "C08": [("rounds", 10000), ("assignments", 1500)],
    "C12": [("contended_rounds", 300), ("suspensions", 10), ("rounds_with_waiting_query", 500), ("first_containers", 500)],
    "C16": [("retries", 200), ("cutoff_ops", 200), ("assignments", 1000)],
    "C17": [("assignments", 800), ("first_containers", 500)],
    "C18": [("assignments", 1500), ("three_strikes", 50)],
}


def owner_of(clause):
    m = re.match(r"(?:conf\.)?(C\d\d)\.", clause)
    return m.group(1) if m else "C08"


def sig_of(clause, detail, tr):
    cfg = tr[0]["cfg"] if tr else {}
    return {"clause": clause, "policy": cfg.get("policy"), "multi": cfg.get("multi"), "detail": json.dumps(detail)[:300]}


def run_models(rep, prop, tier):
    quick, extra = MODEL[prop]
    for name in quick + (extra if tier == "thorough" else []):
        r = common.run_tlc("MC_Sched", SPEC / f"MC_Sched_{name}.cfg", timeout=3000, workers=8)
        rep.add_model(f"MC_Sched_{name}", r)
        if r.violated:
            raise MachineryError(f"model MC_Sched_{name} violates {r.violated}:\n" + "\n".join(r.out.splitlines()[-40:]))


WITNESS = {"C12": [("pr1", "W_NoSuspension"), ("pr1", "W_NoContention"), ("pr1", "W_NoSuspensionFinished")],
           "C16": [("pp", "W_NoRetry")], "C08": [("pr1", "W_NoSuspension")]}


def run_witnesses(rep, prop):
    """Non-vacuity of the bounded models: the situations the property is about must be REACHABLE (TLC must refute the witness)."""
    base = None
    for cfgname, inv in WITNESS.get(prop, []):
        src = (SPEC / f"MC_Sched_{cfgname}.cfg").read_text().splitlines()
        cfg = "\n".join(ln for ln in src if not ln.startswith(("INVARIANT", "PROPERTY"))) + f"\nINVARIANT {inv}\n"
        f = common.scratch() / f"MC_Sched_w_{inv}.cfg"
        f.write_text(cfg)
        r = common.run_tlc("MC_Sched", f, timeout=1200, workers=8)
        if inv not in r.violated:
            raise MachineryError(f"vacuity: the bounded model MC_Sched_{cfgname} never reaches the situation {inv[2:]} (witness not refuted)")
        rep.extra.setdefault("witnesses_reached", []).append(f"{cfgname}:{inv}")


# the naive policy never suspends: its share of pre-emption scenarios goes to DAGs whose branches run side by side on several pools
FLAVOURS = {"C16": (("mixed", 0.4), ("tiny", 0.15), ("preempt", 0.1), ("herd", 0.1), ("fill", 0.13), ("leftover", 0.12)),
            "C12": (("mixed", 0.37), ("tiny", 0.15), ("preempt", 0.25), ("herd", 0.1), ("fill", 0.08), ("leftover", 0.05)),
            "C17": (("mixed", 0.4), ("tiny", 0.15), ("branchy", 0.35), ("herd", 0.1)),
            "C08": (("mixed", 0.35), ("tiny", 0.15), ("preempt", 0.2), ("herd", 0.1), ("branchy", 0.1), ("fill", 0.08), ("leftover", 0.04)),
            "C18": (("mixed", 0.4), ("tiny", 0.15), ("preempt", 0.15), ("herd", 0.1), ("branchy", 0.2))}


def validate(traces, rep, prop, *, step=False):
    files = common.write_shards(traces, common.NCPU, "sched")
    mon = common.run_monitor("TraceSched", "TraceSched.cfg", files)
    # the transcribed policies (what TLC model-checks) stepped along the same runs: exact decision match, differences are DRIFT only
    drift = common.run_monitor("TraceDrift", "TraceDrift.cfg", files)
    rep.extra["policy_transcription"] = dict(drift.counters, rounds_that_differ=len(drift.notes))
    if drift.notes:
        print(f"DRIFT: the transcribed policy of Sched.tla decides differently from the real one in {len(drift.notes)} round(s) "
              f"(no property fixes exact decisions; the model needs updating), e.g. {json.dumps(drift.notes[0])[:300]}")
    by_tid = {tr[0]["tid"]: tr for tr in traces}
    owners = Counter()
    allv = list(mon.viols)
    mon2 = None
    if step:
        mon2 = common.run_monitor("TraceExec", "TraceExec.cfg", files)
        # a command the specification rejects but a shipped policy issued (or an unexpected raise) is a C08 matter
        for v in mon2.viols:
            if v[2].startswith("conf.raise") or "Reject" in v[2] or v[2] in ("C02.RefuseIllegal", "C09.UnknownPoolRejected", "C10.ElseRejected",
                                                                             "C09.OperatorCount", "C09.BadAssignmentRejected"):
                allv.append([v[0], v[1], "C08.Admissible.exec:" + v[2], v[3] if len(v) > 3 else None])
    for v in allv:
        tid, t, clause, detail = v[0], v[1], v[2], v[3] if len(v) > 3 else None
        own = owner_of(clause)
        owners[own] += 1
        if own != prop:
            continue
        tr = by_tid.get(tid, [])
        meta = (tr[0].get("meta") if tr else {}) or {}
        rep.violation(clause, {"tid": tid, "tick": t, "detail": detail, "meta": meta},
                      replay={"kind": "driverA", "seed": meta.get("seed"), "policy": meta.get("policy"), "flavour": meta.get("flavour")},
                      sig=sig_of(clause, detail, tr))
    return mon, mon2, owners


def run(prop, tier, extra=None):
    rep = Report(prop, tier)
    rep.assumptions = [
        "TLC and the CommunityModules Json/IOUtils are trusted",
        "harness/simrec.py + rec.py (recording wrappers and projection) are logic-free and trusted as the eyes",
        "contracts are evaluated on every round of the recorded runs; exhaustive results hold for the small workload sets of MC_Sched_*.cfg",
    ]
    run_models(rep, prop, tier)
    run_witnesses(rep, prop)
    if extra is not None:
        extra(rep, tier)
    traces = driver_sched.gen_traces(NTRACES[tier], common.seed() + hash(prop) % 1000 if False else common.seed() + int(prop[1:]) * 101,
                                     policies=POLICIES[prop], flavours=FLAVOURS.get(prop, driver_sched.DEFAULT_FLAVOURS))
    # spec -> code, exhaustively in the small scope: every initial state TLC explores for these configurations is run through the real code
    from . import exhaustive_sched
    quick_x, more_x = XCFG[prop]
    xtraces, xcounts = exhaustive_sched.gen_traces(quick_x + (more_x if tier == "thorough" else []))
    traces += xtraces
    rep.extra["model_initial_states_run_in_real_code"] = xcounts
    if prop != "C08":
        # random VALID configurations through run_simulator with the real generator (float RAM sizes, tick rates up to 100000, sub-GB and
        # 1-cpu pools), observed sparsely: the contracts of this property on the policy it is about (C08 runs these for all policies, below)
        from . import driver_sim
        real = [p for p in POLICIES[prop] if p != "starter"]
        extra_tr = driver_sim.gen_traces(NTRACES[tier] // 3, common.seed() + 810 + int(prop[1:]), frac_uncontended=0.0, policies=real)
        for tr in extra_tr:
            for e in tr:
                e["tid"] += 2 * 10**6
        traces += extra_tr
    if prop == "C18":
        # more than a thousand pipelines known to one overbook scheduler, a few of them killed again and again while a flood of tiny ones arrives
        traces += driver_sched.gen_special("flood", 8 if tier == "quick" else 64, common.seed() + 1818, 3 * 10**6)
    if prop == "C08":
        # random VALID configurations through the unmodified run_simulator with the real generator: durations below one tick, tick rates up to
        # 100000, 1-cpu and sub-GB pools, probability triples with zeros and awkward decimals, all policies (obs mode, sparse)
        from . import driver_sim
        extra_tr = driver_sim.gen_traces(NTRACES[tier] // 2, common.seed() + 808, frac_uncontended=0.0)
        for tr in extra_tr:
            for e in tr:
                e["tid"] += 2 * 10**6
        traces += extra_tr
        # a merge of hundreds of operators (one operator per container), under the priority policy
        wide = driver_sched.gen_traces(16 if tier == "quick" else 400, common.seed() + 811, policies=["priority"], flavours=(("wide", 1.0),))
        for tr in wide:
            for e in tr:
                e["tid"] += 6 * 10**6
        traces += wide
        # the starter scheduler the documented way, all through the command line: `eudoxia init -s NAME`, `eudoxia run -i NAME`
        traces += driver_sched.gen_special("cli", 6 if tier == "quick" else 60, common.seed() + 809, 4 * 10**6)
        # deterministic probes of the listed known finding D6 (priority-pool ignores single-operator mode)
        traces += [driver_sched.run_scenario(1000 + i, 10**6 + i, "priority-pool", "single") for i in range(4)]
    mon, mon2, owners = validate(traces, rep, prop, step=(prop == "C08"))
    rep.traces += mon.traces
    rep.evaluations += mon.lines
    rep.extra["situations"] = mon.counters
    rep.extra["clauses_fired_by_owner"] = dict(owners)
    if mon2 is not None:
        rep.extra["stepped"] = mon2.counters
    rep.nontrivial = sum(1 for tr in traces if any(e["ev"] == "round" and e["asg"] for e in tr))
    rep.rule = ("seeded scenarios (mixed / tiny pools / preemption pressure) through the real policy inside run_simulator; every round validated "
                "against SchedContracts.tla; non-trivial = the policy issued at least one assignment; distinct by seed")
    for tr in traces[:2]:
        rep.samples.append({"cfg": tr[0]["cfg"], "meta": tr[0]["meta"],
                            "first_round_with_assignment": next(({"t": e["t"], "asg": e["asg"], "sus": e["sus"]} for e in tr if e["ev"] == "round" and e["asg"]), None)})
    lack = [(k, mon.counters.get(k, 0), need) for k, need in NEEDS[prop] if mon.counters.get(k, 0) < (need if tier == "quick" else need * 5)]
    if lack and not rep.violations:
        raise MachineryError(f"vacuity: the run did not reach the situations {prop} is about: {lack}")
    if rep.states == 0:
        rep.level = "model_checking"
    return rep.finish()


def replay(prop, path):
    payload = json.loads(open(path).read())
    rp = payload.get("replay") or {}
    if rp.get("kind") != "driverA":
        raise MachineryError("replay file has no driver-A scenario")
    rep = Report(prop, "quick")
    if rp.get("flavour") == "model-init":
        from . import exhaustive_sched
        meta = ((payload.get("detail") or {}).get("meta")) or {}
        tr = exhaustive_sched.replay_one(meta["cfg"], meta["index"])
        mon, mon2, owners = validate([tr], rep, prop, step=(prop == "C08"))
        print(f"replay: {len(mon.viols)} contract clause(s) fired, by owner {dict(owners)}")
        return 1 if rep.violations else 0
    special = {"flood": driver_sched.flood_run, "crowd": driver_sched.crowd_run, "long": driver_sched.long_run, "cli-starter": driver_sched.starter_cli_run}.get(rp.get("flavour"))
    tr = special(rp["seed"], 0) if special else driver_sched.run_scenario(rp["seed"], 0, rp["policy"], rp.get("flavour") or "mixed")
    mon, mon2, owners = validate([tr], rep, prop, step=(prop == "C08"))
    print(f"replay: {len(mon.viols)} contract clause(s) fired, by owner {dict(owners)}")
    for v in mon.viols[:10]:
        print("  ", json.dumps(v)[:400])
    return 1 if rep.violations else 0
