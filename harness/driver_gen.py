"""Driver C (generator): the real WorkloadGenerator run tick by tick with its random source wrapped in a
delegating proxy that logs every call with arguments and result (C15)."""
from __future__ import annotations

import math
import random
from fractions import Fraction as F

from . import common
from .driver_sim import TRIPLES


def micro(x):
    return int(round(float(x) * 10**6))


class RngProxy:
    """Logs every draw.  With `tails` (a random.Random) it also plays the part of chance: now and then a normal draw comes out four to nine
    standard deviations below its mean - a value the real source produces too, only once in tens of thousands of draws."""

    def __init__(self, inner, log, tails=None):
        self._inner, self._log, self._tails = inner, log, tails

    def choice(self, *args, **kw):
        r = self._inner.choice(*args, **kw)
        a = kw.get("a", args[0] if args else None)
        p = kw.get("p", None)
        self._log.append({"m": "choice", "a": [[int(x) for x in a], [micro(x) for x in (p if p is not None else [])]], "r": int(r)})
        return r

    def normal(self, *args, **kw):
        r = self._inner.normal(*args, **kw)
        loc = kw.get("loc", args[0] if len(args) > 0 else 0.0)
        scale = kw.get("scale", args[1] if len(args) > 1 else 1.0)
        if self._tails is not None and self._tails.random() < 0.04 and float(scale) > 0:
            r = type(r)(float(loc) - self._tails.choice([4.2, 5.0, 6.5, 9.0]) * float(scale))          # the draw itself was made (the stream advances as usual)
        fr = F(float(r))
        self._log.append({"m": "normal", "a": [micro(loc), micro(scale)], "r": [math.trunc(fr), math.floor(fr * 1000)]})
        return r

    def __getattr__(self, name):           # anything else: delegate and log by name (the monitor then cannot decide the draw clauses)
        attr = getattr(self._inner, name)
        if callable(attr):
            def f(*a, **k):
                self._log.append({"m": name, "a": [[], []], "r": 0})
                return attr(*a, **k)
            return f
        return attr


def run_case(seed, tid, marathon=False):
    from eudoxia.workload import WorkloadGenerator
    from eudoxia.simulator import parse_args_with_defaults
    rng = random.Random(seed)
    tps = rng.choice([1, 10, 100, 1000, 10**5, rng.randint(1, 100000)])
    nticks = rng.choice([1, 20, 200, 600])
    ip, qp, bp = rng.choice(TRIPLES)
    wsm = rng.choice([float(F(1, 2 * tps)), float(F(rng.randint(1, 40), tps)), float(F(nticks, 3 * tps)), 60.0])
    if wsm * tps > 2000:
        wsm = float(F(1500, tps))
    nticks = min(nticks, 150 * (int(wsm * tps) + 1))        # an event (almost) every tick: keep the JSON arrays of one line short (TLC's Json module is recursive in their length)
    params = parse_args_with_defaults({
        "ticks_per_second": tps, "waiting_seconds_mean": wsm, "num_pipelines": rng.choice([1, 2, 4, 7, 12]), "num_operators": rng.choice([1, 2, 5, 9]),
        "interactive_prob": ip, "query_prob": qp, "batch_prob": bp, "cpu_io_ratio": rng.choice([0.0, 0.1, 0.5, 0.9, 1.0]), "random_seed": rng.randrange(10**6),
        # scheduler / executor settings are part of the parameter set the generator is built from; the workload must not depend on them
        "ram_gb_per_pool": rng.choice([0.5, 8, 32, 256, 1000]), "cpus_per_pool": rng.choice([1, 4, 64]), "num_pools": rng.choice([1, 2, 8]),
        "scheduler_algo": rng.choice(["naive", "priority", "overbook"]), "multi_operator_containers": rng.random() < 0.5})
    if marathon:          # ONE generator instance emits more than 2^16 pipelines (64 per event, an event every tick): identity that wraps, caps or recycles
        tps, nticks, wsm = 1000, rng.choice([1030, 1040]), 0.0004
        params = parse_args_with_defaults(dict(params, ticks_per_second=tps, waiting_seconds_mean=wsm, num_pipelines=64, num_operators=1))
    gen = WorkloadGenerator(**params)
    log = []
    gen.rng = RngProxy(gen.rng, log, tails=random.Random(seed ^ 0x7A11) if (tid % 5 == 2 and not marathon) else None)
    events, stray = [], 0
    greedy, hoard = (tid % 4 == 1), []
    for t in range(nticks):
        before = len(log)
        ps = gen.run_one_tick()
        calls = log[before:]
        if greedy:
            # a consumer that goes on using the list it was handed (merging a second source into it): the list is the caller's
            delivered = list(ps)
            if len(ps) <= 64:
                ps.extend(hoard)
            hoard.extend(delivered[:2])
            del hoard[40:]
            ps = delivered[:200]
        if ps:
            pj = []
            for p in ps:
                ops = [p.values.node_lookup[i] for i in p.values.node_ids]
                pos = {id(o): k + 1 for k, o in enumerate(ops)}
                oj = []
                for o in ops:
                    segs = o.get_segments()
                    sg = segs[0]
                    law = next((n for n, f in type(sg).SCALING_FUNCS.items() if f == sg.scaling_func), "callable")
                    oj.append({"cpu": int(round(sg.baseline_cpu_seconds * 1000)), "law": law, "read": int(round(sg.storage_read_gb * 1000)),
                               "mem": -1 if sg.memory_gb is None else int(round(sg.memory_gb * 1000)), "nseg": len(segs), "par": [pos[id(q)] for q in o.parents]})
                pj.append({"id": str(p.pipeline_id), "prio": p.priority.name[0], "ops": oj})
            events.append({"t": t, "pipes": pj, "calls": calls})
        else:
            stray += len(calls)
    tot = ip + qp + bp
    hdr = {"kind": "hdr", "tid": tid, "seed": seed, "marathon": marathon, "tps": tps, "nticks": nticks, "num_pipelines": params["num_pipelines"], "num_operators": params["num_operators"],
           "probs": [micro(ip), micro(qp), micro(bp)], "probs_norm": [micro(ip / tot), micro(qp / tot), micro(bp / tot)],
           "ratio": micro(params["cpu_io_ratio"]), "mean_ticks": int(wsm * tps)}
    return [hdr] + [dict(ev, kind="ev", tid=tid) for ev in events] + [{"kind": "end", "tid": tid, "nticks": nticks, "stray_calls": stray}]


def ids_case(seed, tid, n_events=1040):
    """More than 2^16 pipelines from ONE generator instance, reported by identifier only (freshness; the draw clauses are run_case's)."""
    from eudoxia.workload import WorkloadGenerator
    from eudoxia.simulator import parse_args_with_defaults
    rng = random.Random(seed)
    per = rng.choice([64, 80])
    gen = WorkloadGenerator(**parse_args_with_defaults({"ticks_per_second": 1000, "waiting_seconds_mean": 0.0004, "num_pipelines": per,
                                                        "num_operators": rng.choice([1, 2]), "random_seed": rng.randrange(10**6)}))
    lines, buf, start = [{"kind": "idhdr", "tid": tid, "seed": seed, "per_event": per}], [], 1
    for t in range(n_events):
        for p in gen.run_one_tick():
            buf.append(str(p.pipeline_id))
        if len(buf) >= 200 or t == n_events - 1:          # short lines: TLC's Json module is quadratic in the length of an array
            lines.append({"kind": "ids", "tid": tid, "from": start, "ids": buf})
            start += len(buf)
            buf = []
    return lines


def pair_case(seed, tid):
    """Same parameters and seed, cpu_io_ratio 0 versus 1: sums over the later operators of all pipelines."""
    from eudoxia.workload import WorkloadGenerator
    from eudoxia.simulator import parse_args_with_defaults
    rng = random.Random(seed)
    base = {"ticks_per_second": 10, "waiting_seconds_mean": 0.3, "num_pipelines": 4, "num_operators": rng.choice([3, 5, 8]),
            "interactive_prob": 0.5, "query_prob": 0.0, "batch_prob": 0.5, "random_seed": rng.randrange(10**6)}
    out = {}
    for name, ratio in (("lo", 0.0), ("hi", 1.0)):
        gen = WorkloadGenerator(**parse_args_with_defaults(dict(base, cpu_io_ratio=ratio)))
        n = cpu = read = 0
        for t in range(120):
            for p in gen.run_one_tick():
                ops = [p.values.node_lookup[i] for i in p.values.node_ids]
                for o in ops[1:]:
                    sg = o.get_segments()[0]
                    n += 1
                    cpu += int(round(sg.baseline_cpu_seconds * 10))      # deci-seconds
                    read += int(round(sg.storage_read_gb * 10))
        out[name] = {"n": n, "cpu": cpu, "read": read}
    return {"kind": "pair", "tid": tid, "seed": seed, "lo": out["lo"], "hi": out["hi"]}


def _special(args):
    kind, seed, tid = args
    common.import_repo()
    return ids_case(seed, tid) if kind == "ids" else run_case(seed, tid, marathon=True)


def _chunk(args):
    seeds, tid0 = args
    common.import_repo()
    return [run_case(sd, tid0 + i) if i % 10 else [pair_case(sd, tid0 + i)] for i, sd in enumerate(seeds)]


def gen_lines(n, seed, n_ids=0, n_marathon=0):
    import multiprocessing as mp
    rng = random.Random(seed)
    seeds = [rng.randrange(2**31) for _ in range(n)]
    per = max(1, n // 32)
    jobs = [(seeds[i:i + per], i) for i in range(0, n, per)]
    special = [("ids", rng.randrange(2**31), 10**6 + i) for i in range(n_ids)] + [("marathon", rng.randrange(2**31), 2 * 10**6 + i) for i in range(n_marathon)]
    with common.pool(common.NCPU) as pool:
        sp = pool.map_async(_special, special)
        out = pool.map(_chunk, jobs)
        sp = sp.get()
    return [x for ch in out for x in ch] + sp
