"""Driver E (tools): the real `snap_command`, `jitter_command` and `_sensitivity_task` on generated
trace files (C20).  Input and output rows are handed to TraceTools.tla as exact decimals (BigNat limbs)."""
from __future__ import annotations

import csv
import hashlib
import io
import math
import os
import random
import sys
from decimal import Decimal
from fractions import Fraction as F

from . import common
from .driver_replay import dec_str, limbs

COLS = ['pipeline_id', 'arrival_seconds', 'priority', 'operator_id', 'parents', 'baseline_cpu_seconds', 'cpu_scaling', 'memory_gb', 'storage_read_gb']
TPS = [1, 10, 100, 1000, 10**4, 10**5, 3, 7, 60, 25]


def arr_json(text: str):
    t = text.strip()
    if not t:
        return [False, [], [1]]
    fr = F(Decimal(t))
    return [True, limbs(fr.numerator), limbs(fr.denominator)]


def read_rows(path):
    with open(path, newline="") as f:
        rows = list(csv.DictReader(f))
    out = []
    for r in rows:
        rest = "|".join(r[c] for c in COLS if c not in ("pipeline_id", "arrival_seconds"))
        out.append({"pid": r["pipeline_id"], "arr": arr_json(r["arrival_seconds"]), "rest": rest, "text": r["arrival_seconds"]})
    return out


def write_input(path, rng, tps, n_pipes):
    # one file in eight starts hours into the trace: arrival * tps between 2^29 and 2^31, where a float product is coarser than 1e-7
    k = rng.randrange(2**29, 2**31 - 10**5) if rng.random() < 0.125 else 0
    # at most 15 significant digits, so that the text survives the float that jitter reads it into (exact comparisons stay fair)
    places = 9 if k == 0 else max(0, min(9, 15 - len(str(2**31 // tps))))
    with open(path, "w", newline="") as f:
        w = csv.writer(f)
        w.writerow(COLS)
        for p in range(n_pipes):
            k += rng.choice([0, 0, 1, 2, rng.randint(0, 50)])
            kind = rng.random()
            if kind < 0.5:
                a = F(k, tps)
            elif kind < 0.8:
                a = F(k, tps) + F(rng.randint(1, 999), 1000 * tps)
            else:
                a = F(k * 100 + rng.randint(0, 99), 100 * tps)          # 0.29 at 100 ticks/s style: on a finer decimal grid
            text = dec_str(a, places)
            if a and a < F(1, 10**4) and rng.random() < 0.7:
                text = repr(float(a))          # the way Python (and the trace writer) spells small times: 7e-05
            for o in range(rng.randint(1, 3)):
                w.writerow([f"p{p + 1}", text if o == 0 else "", rng.choice(["QUERY", "INTERACTIVE", "BATCH_PIPELINE"]) if o == 0 else "",
                            f"op{o + 1}", "" if o == 0 else f"op{o}", rng.choice(["1", "2.5", "0.125"]), rng.choice(["const", "linear3", "sqrt"]),
                            rng.choice(["", "0", "3.5"]), rng.choice(["10", "37.5", "0"])])


def snap_case(rng, tid, d):
    from eudoxia.tools import snap_command
    tps = rng.choice(TPS) if rng.random() < 0.85 else rng.randint(1, 100000)
    inp, out, out2 = f"{d}/in{tid}.csv", f"{d}/snap{tid}.csv", f"{d}/snap2_{tid}.csv"
    empty = rng.random() < 0.05          # a header-only trace (a valid idle workload) onto an output file left over from an earlier call
    write_input(inp, rng, tps, 0 if empty else rng.randint(1, 25))
    if empty:
        write_input(out, rng, tps, 3)
        write_input(out2, rng, tps, 2)
    if tid % 2:          # every other case through the command line (`eudoxia tools snap IN OUT TPS -f`)
        common.cli(["tools", "snap", inp, out, str(tps), "-f"])
        common.cli(["tools", "snap", out, out2, str(tps), "-f"])
    else:
        _quiet(lambda: snap_command(inp, out, tps, force=True))
        _quiet(lambda: snap_command(out, out2, tps, force=True))
    ri, ro, ro2 = read_rows(inp), read_rows(out), read_rows(out2)
    cert = [math.floor(F(Decimal(r["text"])) * tps) if r["text"].strip() else 0 for r in ri]
    strip = lambda rows: [{"pid": r["pid"], "arr": r["arr"], "rest": r["rest"]} for r in rows]
    line = {"kind": "snap", "tid": tid, "tps": tps, "inp": strip(ri), "out": strip(ro), "out2": strip(ro2) if len(ro2) == len(ro) else strip(ro), "cert": cert,
            "texts": [[r["text"] for r in ri if r["text"]], [r["text"] for r in ro if r["text"]]]}
    for f in (inp, out, out2):
        os.unlink(f)
    return line


def jitter_case(rng, tid, d):
    from eudoxia.tools import jitter_command
    tps = rng.choice(TPS)
    delta = rng.choice([F(0), F(1, tps), F(1, 2), F(3), F(1, 1000), F(10)])
    seed = rng.choice([None, 0, 7, rng.randrange(10**6)])
    inp, out, out2 = f"{d}/jin{tid}.csv", f"{d}/jit{tid}.csv", f"{d}/jit2_{tid}.csv"
    empty = rng.random() < 0.05          # a header-only trace onto output files left over from an earlier call (as `tools sensitivity` does)
    write_input(inp, rng, tps, 0 if empty else rng.randint(1, 25))
    if empty:
        write_input(out, rng, tps, 3)
        write_input(out2, rng, tps, 3)
    if tid % 2 and seed is not None:          # every other seeded case through the command line (`eudoxia tools jitter IN OUT DELTA -s SEED -f`)
        common.cli(["tools", "jitter", inp, out, repr(float(delta)), "-s", str(seed), "-f"])
        common.cli(["tools", "jitter", inp, out2, repr(float(delta)), "--seed", str(seed), "-f"])
    else:
        _quiet(lambda: jitter_command(inp, out, float(delta), seed=seed, force=True))
        _quiet(lambda: jitter_command(inp, out2, float(delta), seed=seed, force=True))
    ri, ro = read_rows(inp), read_rows(out)
    same = os.path.exists(out2) and open(out).read() == open(out2).read()
    # match output rows to input rows by (pipeline id, position inside the pipeline)
    index, seen = {}, {}
    for i, r in enumerate(ri):
        k = seen.get(r["pid"], 0)
        index[(r["pid"], k)] = i + 1
        seen[r["pid"]] = k + 1
    seen = {}
    outj = []
    for r in ro:
        k = seen.get(r["pid"], 0)
        seen[r["pid"]] = k + 1
        outj.append({"pid": r["pid"], "arr": r["arr"], "rest": r["rest"], "src": index.get((r["pid"], k), 0)})
    line = {"kind": "jitter", "tid": tid, "tps": tps, "dnum": limbs(delta.numerator), "dden": limbs(delta.denominator), "seed": -1 if seed is None else seed,
            "inp": [{"pid": r["pid"], "arr": r["arr"], "rest": r["rest"]} for r in ri], "out": outj, "same_again": same, "same_cross": True}
    os.unlink(out2)
    if seed is None:
        os.unlink(inp)
        os.unlink(out)
    else:
        line["_cross"] = [inp, out, float(delta), seed]          # resolved by _cross_process() at the end of the chunk
    return line


CHILD = """
import io, json, sys
sys.path.insert(0, sys.argv[1])
from eudoxia.tools import jitter_command
so = sys.stdout
for inp, out, delta, seed in json.load(open(sys.argv[2])):
    sys.stdout = sys.stderr = io.StringIO()
    jitter_command(inp, out + '.x', delta, seed=seed, force=True)
sys.stdout = so
print('done')
"""


def _cross_process(lines, rng, d):
    """Same input, delta and seed in ANOTHER interpreter (different string hashing): the files must be equal byte for byte."""
    import json
    import subprocess
    jobs = [ln["_cross"] for ln in lines if "_cross" in ln]
    if jobs:
        jf = f"{d}/cross{rng.randrange(10**9)}.json"
        with open(jf, "w") as f:
            json.dump(jobs, f)
        env = dict(os.environ, PYTHONHASHSEED=str(rng.randrange(1, 2**31)))
        r = subprocess.run([sys.executable, "-c", CHILD, str(common.REPO), jf], env=env, capture_output=True, text=True, timeout=600)
        if r.returncode != 0 or "done" not in r.stdout:
            raise common.MachineryError(f"cross-process jitter run failed: {r.stderr[-400:]}")
        os.unlink(jf)
    for ln in lines:
        job = ln.pop("_cross", None)
        if job:
            inp, out = job[0], job[1]
            rd = lambda f: open(f).read() if os.path.exists(f) else None          # (a tool that wrote nothing is judged by the row clauses)
            ln["same_cross"] = rd(out) == rd(out + ".x") or rd(out + ".x") is None
            for f in (inp, out, out + ".x"):
                if os.path.exists(f):
                    os.unlink(f)


def _quiet(fn):
    so, se = sys.stdout, sys.stderr
    sys.stdout = sys.stderr = io.StringIO()
    try:
        return fn()
    finally:
        sys.stdout, sys.stderr = so, se


def sample_case(rng, tid, d):
    """_sensitivity_task(i) must build workload i from seed start+i; the expensive analysis is stubbed on the harness side."""
    import eudoxia.tools as tools
    from eudoxia.workload import WorkloadGenerator
    from eudoxia.workload.csv_io import CSVWorkloadWriter, WorkloadTraceGenerator
    from eudoxia.simulator import parse_args_with_defaults
    tps = rng.choice([1, 10, 100])
    start = rng.choice([0, 42, rng.randrange(1000)])
    n = rng.choice([2, 3])
    if tid % 7 == 3:
        n = (os.cpu_count() or 4) + 1          # more samples than processors: the command may not start them all at once
    pfile = f"{d}/params{tid}.toml"
    dur = rng.choice([30, 90])
    with open(pfile, "w") as f:
        f.write(f"duration = {dur}\nticks_per_second = {tps}\nwaiting_seconds_mean = {rng.choice([2.0, 5.0])}\nnum_pipelines = {rng.choice([1, 3])}\n")
    outdir = f"{d}/samples{tid}"
    os.makedirs(outdir, exist_ok=True)
    real = tools.sensitivity_command
    tools.sensitivity_command = lambda *a, **k: None          # harness-side stub of the expensive analysis (not a source change)
    so, se = sys.stdout, sys.stderr
    digests, expected = [], []
    try:
        if rng.random() < 0.4:
            # the output directory is not fresh: it holds the samples of an earlier call with another start seed
            for i in range(n):
                try:
                    tools._sensitivity_task(tools.SensitivityTask(workload_index=i, params_file=pfile, output_dir=outdir, seed=start + 1000 + i, jitter_seed=None))
                finally:
                    sys.stdout, sys.stderr = so, se
        if tid % 3:
            # the command itself (`eudoxia tools sensitivity-sample P DIR N --start-seed S`): it numbers the samples and derives their seeds.
            # Its process pool is replaced by a sequential stand-in (a worker of the harness's own pool may not have children)
            class _SeqPool:
                def __init__(self, *a, **k):
                    pass

                def __enter__(self):
                    return self

                def __exit__(self, *a):
                    return False

                def map(self, fn, items):
                    out = []
                    for it in items:
                        try:
                            out.append(fn(it))
                        finally:
                            sys.stdout, sys.stderr = so_cli[0], so_cli[1]          # the task rebinds both and never restores them
                    return out
            real_mp = tools.multiprocessing
            shim = type("mp_shim", (), {"Pool": _SeqPool})
            tools.multiprocessing = shim
            try:
                import io as _io
                so_cli = [_io.StringIO(), _io.StringIO()]
                sys.stdout, sys.stderr = so_cli
                try:
                    if tid % 2:
                        from eudoxia.__main__ import main as _main
                        try:
                            _main(["tools", "sensitivity-sample", pfile, outdir, str(n), "--start-seed", str(start)])
                        except SystemExit:
                            pass
                    else:
                        tools.sensitivity_sample_command(pfile, outdir, n, start_seed=start)
                finally:
                    sys.stdout, sys.stderr = so, se
            finally:
                tools.multiprocessing = real_mp
        else:
            for i in range(n):
                task = tools.SensitivityTask(workload_index=i, params_file=pfile, output_dir=outdir, seed=start + i, jitter_seed=None)
                try:
                    tools._sensitivity_task(task)
                finally:
                    sys.stdout, sys.stderr = so, se          # the task rebinds both and never restores them
    finally:
        tools.sensitivity_command = real
        sys.stdout, sys.stderr = so, se
    import tomllib
    with open(pfile, "rb") as f:
        base = parse_args_with_defaults(tomllib.load(f))
    for i in range(n):
        p = dict(base)
        p["random_seed"] = start + i
        buf = io.StringIO()
        w = CSVWorkloadWriter(buf)
        for row in WorkloadTraceGenerator(workload=WorkloadGenerator(**p), ticks_per_second=p["ticks_per_second"], duration_secs=p["duration"]).generate_rows():
            w.write_row(row)
        expected.append(hashlib.sha256(buf.getvalue().replace("\r\n", "\n").encode()).hexdigest()[:16])
    # the real task writes through a text file handle too; normalise line ends the same way
    digests = []
    for i in range(n):
        if not os.path.exists(f"{outdir}/w{i}.csv"):
            digests.append(f"sample {i} was not written")
            continue
        with open(f"{outdir}/w{i}.csv", newline="") as f:
            digests.append(hashlib.sha256(f.read().replace("\r\n", "\n").encode()).hexdigest()[:16])
    import shutil
    shutil.rmtree(outdir, ignore_errors=True)
    os.unlink(pfile)
    return {"kind": "sample", "tid": tid, "start": start, "samples": digests, "expected": expected}


def _chunk(args):
    kind, seed, tid0, n = args
    common.import_repo()
    rng = random.Random(seed)
    d = str(common.scratch())
    f = {"snap": snap_case, "jitter": jitter_case, "sample": sample_case}[kind]
    lines = [f(rng, tid0 + i, d) for i in range(n)]
    _cross_process(lines, rng, d)
    return [[ln] for ln in lines]


def gen_lines(n_snap, n_jit, n_sample, seed):
    import multiprocessing as mp
    jobs, tid = [], 0
    for kind, n in (("snap", n_snap), ("jitter", n_jit), ("sample", n_sample)):
        per = max(1, n // 16)
        for i in range(0, n, per):
            jobs.append((kind, seed * 31 + tid + i, tid + i, min(per, n - i)))
        tid += n
    with common.pool(common.NCPU) as pool:
        out = pool.map(_chunk, jobs)
    return [x for ch in out for x in ch]
