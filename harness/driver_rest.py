"""C19 driver: run_simulator with scheduler_algo="rest" against a loop-back HTTP server on 127.0.0.1.

The server logs every request body and answers from a decision source: a scripted "universal" external scheduler
(random admissible assignments, and suspensions of containers that are suspendable right now - the harness peeks at
the executor for that, the payload does not carry it) or a Python port of go/naive.  Each request is translated into
the specification's terms (container ids -> creation order, operator uuids -> (pipeline, index)) and attached to the
round event next to the ground truth; TraceRest.tla compares.  A second, in-process run replays the recorded
decisions through a registered scheduler; the statistics must be identical.
"""
from __future__ import annotations

import json
import random
import threading
from http.server import BaseHTTPRequestHandler, ThreadingHTTPServer

from . import common, simrec
from .rec import to_units

SENTINEL_CPU = 7.654321        # baseline_cpu_seconds of every segment: never observable at run time, must not appear in any request
OPKEYS = {"id", "state", "is_assignable_state", "parents_complete"}
PIPEKEYS = {"pipeline_id", "priority", "arrival_tick", "is_complete", "has_failures", "operators"}


class Server:
    def __init__(self, decide):
        self.requests, self.replies, self.init_body = [], [], None
        self.decide = decide
        outer = self

        class H(BaseHTTPRequestHandler):
            def log_message(self, *a):
                pass

            def do_POST(self):
                n = int(self.headers.get("Content-Length", 0))
                raw = self.rfile.read(n).decode()
                body = json.loads(raw)
                if self.path == "/init":
                    outer.init_body = body
                    out = {}
                else:
                    out = outer.decide(body)
                    outer.requests.append((body, raw))
                    outer.replies.append(out)
                data = json.dumps(out).encode()
                self.send_response(200)
                self.send_header("Content-Type", "application/json")
                self.send_header("Content-Length", str(len(data)))
                self.end_headers()
                self.wfile.write(data)

        self.httpd = ThreadingHTTPServer(("127.0.0.1", 0), H)
        self.port = self.httpd.server_address[1]
        self.thread = threading.Thread(target=self.httpd.serve_forever, daemon=True)
        self.thread.start()

    def close(self):
        self.httpd.shutdown()
        self.httpd.server_close()


def make_decider(rng, mode, holder):
    """holder['ex'] gives the real executor (only used to find containers that are suspendable right now)."""
    known = {}

    def decide(body):
        for p in body["new_pipelines"] + body["other_pipelines"]:
            known[p["pipeline_id"]] = p
        order = [p for p in body["other_pipelines"]] + [p for p in body["new_pipelines"]]
        sus, asg = [], []
        taken = set()
        for pool in body["pools"]:
            cpu, ram = pool["avail_cpu"], pool["avail_ram_gb"]
            if mode == "naive":
                if cpu <= 0 or ram <= 0:
                    continue
                for p in order:
                    if p["is_complete"] or p["has_failures"]:
                        continue
                    ops = [o["id"] for o in p["operators"] if o["is_assignable_state"] and o["parents_complete"] and o["id"] not in taken][:1]
                    if not ops:
                        continue
                    taken.update(ops)
                    asg.append({"operator_ids": ops, "cpu": cpu, "ram_gb": ram, "pool_id": pool["pool_id"], "priority": p["priority"],
                                "is_resume": False, "force_run": False})
                    break
                continue
            if mode == "retry":
                # one operator per container, every ready operator (failed ones at once) with little RAM: frequent OOMs of siblings
                for p in order:
                    if p["is_complete"]:
                        continue
                    for o in p["operators"]:
                        if cpu < 1 or ram <= 0:
                            break
                        if o["is_assignable_state"] and o["parents_complete"] and o["id"] not in taken:
                            r = min(ram, rng.choice([4.0, 8.0, 8.0, 16.0]))
                            taken.add(o["id"])
                            cpu -= 1
                            ram -= r
                            asg.append({"operator_ids": [o["id"]], "cpu": 1, "ram_gb": r, "pool_id": pool["pool_id"], "priority": p["priority"],
                                        "is_resume": False, "force_run": False})
                continue
            # universal: several containers per pool, random sizes, multi-operator chains in iteration order
            for _ in range(rng.choice([0, 1, 1, 2])):
                if cpu < 1 or ram <= 0:
                    break
                cands = [p for p in order if not p["is_complete"]]
                if not cands:
                    break
                p = rng.choice(cands)
                ready = [o["id"] for o in p["operators"] if o["is_assignable_state"] and o["parents_complete"] and o["id"] not in taken]
                if not ready:
                    continue
                ops = ready[:rng.choice([1, 1, 2])]
                if rng.random() < 0.3:
                    rng.shuffle(ops)                   # an admissible but non-canonical order of independent ready operators
                if rng.random() < 0.25 and len(cands) >= 2:
                    q = rng.choice([x for x in cands if x is not p])          # a container mixing operators of two pipelines
                    more = [o["id"] for o in q["operators"] if o["is_assignable_state"] and o["parents_complete"] and o["id"] not in taken and o["id"] not in ops]
                    ops = ops + more[:1]
                c = rng.choice([1, 2, 3, 0.5, 1.5, 2.5])           # an external scheduler may ask for fractional cpus
                if c > cpu:
                    c = cpu
                r = rng.choice([ram, ram / 2, min(ram, 16.0), min(ram, 64.0)])
                if r <= 0:
                    continue
                taken.update(ops)
                cpu -= c
                ram -= r
                asg.append({"operator_ids": ops, "cpu": c, "ram_gb": r, "pool_id": pool["pool_id"], "priority": p["priority"],
                            "is_resume": rng.random() < 0.1, "force_run": rng.random() < 0.15})         # optional flags: no effect on what is executed
        if mode == "universal" and holder.get("ex") is not None:
            for R in holder["ex"].pools:
                for c in R.active_containers:
                    if c.can_suspend_container() and rng.random() < 0.4:
                        sus.append({"container_id": c.container_id, "pool_id": R.pool_id})
        return {"suspensions": sus, "assignments": asg}
    return decide


def c4(x):
    return int(round(float(x) * 4))


def scale_cpus(events):
    """cpu counts may be fractional over REST: hand them to the monitor in quarter cpus (integers)."""
    for e in events:
        for pools in ([e["pre"]["pools"]] if e["ev"] == "round" and e.get("pre") else []) + ([e["obs"]["pools"]] if e["ev"] == "exec" else []):
            for p in pools:
                p["acpu"] = c4(p["acpu"])
                for c in p["active"] + p["suspending"]:
                    c["cpu"] = c4(c["cpu"])
        if e["ev"] == "round":
            for a in e["asg"]:
                a["cpu"] = c4(a["cpu"])
            for r in e["results"]:
                r["cpu"] = c4(r["cpu"])
        if e["ev"] == "exec":
            for r in e["obs"]["results"]:
                r["cpu"] = c4(r["cpu"])


def translate(body, raw, idx, cids, U, opmap):
    """A request body in the specification's terms.  Pure renaming/unit conversion."""
    def ref(opid):
        return opmap.get(opid, [0, 0])
    pid2idx = {str(p.pipeline_id): k + 1 for k, p in enumerate(idx.pipes)}

    def ctr(c):
        ram, ramr = to_units(c["ram_gb"], U)
        mem, memr = to_units(c["current_memory_gb"], U)
        return {"cid": cids.get(c["container_id"]), "cpu": c4(c["cpu"]), "ram": ram, "ramr": ramr, "mem": mem, "memr": memr, "prio": c["priority"][0],
                "ops": [ref(o) for o in c["operator_ids"]]}
    pools = []
    for p in body["pools"]:
        aram, aramr = to_units(p["avail_ram_gb"], U)
        cons, consr = to_units(p["consumed_ram_gb"], U)
        pools.append({"acpu": c4(p["avail_cpu"]), "aram": aram, "aramr": aramr, "cons": cons, "consr": consr,
                      "active": [ctr(c) for c in p["active_containers"]], "suspending": [ctr(c)["cid"] for c in p["suspending_containers"]],
                      "suspended": [ctr(c)["cid"] for c in p["suspended_containers"]]})

    def pipe(p):
        return {"p": pid2idx.get(p["pipeline_id"], 0), "prio": p["priority"][0], "arr": -1 if p["arrival_tick"] is None else p["arrival_tick"],
                "complete": bool(p["is_complete"]), "failures": bool(p["has_failures"]),
                "ops": [{"ref": ref(o["id"]), "state": o["state"], "assignable": bool(o["is_assignable_state"]), "parents": bool(o["parents_complete"])} for o in p["operators"]],
                "keys_ok": set(p.keys()) == PIPEKEYS and all(set(o.keys()) == OPKEYS for o in p["operators"])}
    results = []
    for r in body["results"]:
        ram, ramr = to_units(r["ram"], U)
        results.append({"cid": cids.get(r["container_id"]), "err": r["error"] or "", "pool": r["pool_id"] + 1, "ops": [ref(o) for o in r["ops"]],
                        "cpu": c4(r["cpu"]), "ram": ram, "prio": r["priority"][0]})
    return {"tick": body["tick"], "results": results, "new": [pipe(p) for p in body["new_pipelines"]], "other": [pipe(p) for p in body["other_pipelines"]],
            "pools": pools, "leak": repr(SENTINEL_CPU) in raw or "7.654" in raw,
            "topkeys_ok": set(body.keys()) == {"tick", "sim_time_seconds", "results", "new_pipelines", "other_pipelines", "pools"}}


def run_case(seed, tid):
    common.import_repo()
    from eudoxia.workload import Pipeline
    from eudoxia.workload.pipeline import Segment
    from eudoxia.utils import Priority
    import eudoxia.scheduler.rest  # noqa: F401
    rng = random.Random(seed)
    tps = rng.choice([1, 2, 5, 10])
    ticks = rng.choice([40, 90, 160])
    mode = rng.choice(["universal", "universal", "naive", "retry"])
    poll = rng.choice([0.0, 1.0 / tps, 3.0 / tps, 1.0, 2.5])
    quiet = rng.random() < 0.12          # a run of one to three ticks, possibly with nothing arriving and no call due before it ends
    if quiet:
        ticks, poll = rng.choice([1, 1, 2, 3]), rng.choice([poll, 1.0, 2.5, 100.0])
    npools = rng.choice([1, 2])
    cpus = rng.choice([2, 4, 8])
    ram = rng.choice([32, 64, 256])
    # scripted workload with DAG pipelines; every segment carries the sentinel CPU time
    def build():
        r2 = random.Random(seed + 17)
        arrivals = {}
        for k in range(r2.randint(2, 7) if not quiet else r2.choice([0, 0, 1])):
            p = Pipeline(f"r{k + 1}", r2.choice(list(Priority)))
            ops = []
            for i in range(r2.randint(1, 4) if mode != "retry" else r2.randint(3, 5)):
                pa = [j for j in range(i) if r2.random() < 0.5] if mode != "retry" else []
                o = p.new_operator([ops[j] for j in pa] or None)
                o.add_segment(Segment(baseline_cpu_seconds=SENTINEL_CPU if r2.random() < 0.5 else SENTINEL_CPU / r2.choice([2, 10, 100]), cpu_scaling=r2.choice(["const", "linear3", "squared"]),
                                      memory_gb=r2.choice([None, None, 1.0, 13.37]) if mode != "retry" else None,
                                      storage_read_gb=r2.choice([0.0, 20.0 / tps, 55.0, 123.25]) if mode != "retry" else r2.choice([1, 2, 3, 4, 6]) * 20.0 / tps + 1.0))
                ops.append(o)
            arrivals.setdefault(r2.randint(0, ticks // 2), []).append(p)
        return arrivals
    holder = {}
    srv = Server(make_decider(random.Random(seed + 5), mode, holder))
    params = {"duration": ticks / tps + 1e-9, "ticks_per_second": tps, "scheduler_algo": "rest", "rest_scheduler_addr": f"127.0.0.1:{srv.port}",
              "rest_poll_interval": poll, "num_pools": npools, "cpus_per_pool": cpus, "ram_gb_per_pool": ram,
              "multi_operator_containers": True, "allow_memory_overcommit": rng.random() < 0.3}
    U = 1000
    try:
        events, stats, exc, ctx = simrec.record_run(params, tid=tid, workload=simrec.ScriptedWorkload(build()), mode="obs", U=U, policy_key="rest",
                                                    meta={"seed": seed, "driver": "rest", "mode": mode}, ret_ctx=True, holder=holder)
    finally:
        srv.close()
    idx, cids = ctx["idx"], ctx["cids"]
    opmap = {}
    for pi, ops in enumerate(idx.ops):
        for oi, o in enumerate(ops):
            opmap[str(o.id)] = [pi + 1, oi + 1]
    # attach each request (by its tick field, 1-based) to the round event of that tick
    by_tick, decisions = {}, {}
    for (body, raw), reply in zip(srv.requests, srv.replies):
        rep = {"sus": [{"cid": cids.get(s["container_id"]), "pool": s["pool_id"] + 1} for s in reply["suspensions"]],
               "asg": [{"ops": [opmap.get(o, [0, 0]) for o in a["operator_ids"]], "cpu": c4(a["cpu"]), "ram": to_units(a["ram_gb"], U)[0], "pool": a["pool_id"] + 1,
                        "prio": a["priority"][0]} for a in reply["assignments"]]}
        by_tick.setdefault(body["tick"] - 1, []).append({"req": translate(body, raw, idx, cids, U, opmap), "reply": rep})
        decisions[body["tick"] - 1] = (rep["sus"], [dict(x, ram_gb=a["ram_gb"], cpu_real=a["cpu"]) for x, a in zip(rep["asg"], reply["assignments"])])
    scale_cpus(events)
    out = []
    for e in events:
        if e["ev"] == "hdr":
            e["cfg"]["poll_num"] = int(round(poll * 10**6))
            e["cfg"]["init_ok"] = bool(srv.init_body and "params" in srv.init_body)
        if e["ev"] == "round":
            calls = by_tick.get(e["t"], [])
            e["ncalls"] = len(calls)
            e["rest"] = calls[0] if calls else {"req": {"tick": 0}, "reply": {"sus": [], "asg": []}}
        out.append(e)
    # in-process equivalence run: the same decisions made by a registered scheduler
    stats2 = replay_decisions(params, build(), decisions, tid)
    out[-1]["stats_inprocess"] = simrec.stats_json(stats2) if stats2 is not None else {"none": 1}
    out[-1]["same_stats"] = (stats2 is not None and stats is not None and simrec.stats_json(stats2) == simrec.stats_json(stats)) or (stats is None and stats2 is None)
    out[-1]["ncalls_total"] = len(srv.requests)
    return out


def replay_decisions(params, arrivals, decisions, tid):
    """Run the same workload in process with a registered scheduler that issues the recorded decisions."""
    from eudoxia.simulator import run_simulator
    from eudoxia.scheduler.decorators import INIT_ALGOS, SCHEDULING_ALGOS
    from eudoxia.executor.assignment import Assignment, Suspend
    from eudoxia.utils import Priority
    from .rec import PipeIndex, CidMap, all_container_ids
    idx, cids = PipeIndex(), CidMap()
    st = {"t": 0}
    PR = {"Q": Priority.QUERY, "I": Priority.INTERACTIVE, "B": Priority.BATCH_PIPELINE}

    def init(s):
        pass

    def sched(s, results, pipelines):
        for p in pipelines:
            idx.add(p)
        cids.learn(all_container_ids(s.executor, results))
        inv = {v: k for k, v in cids.m.items()}
        sus_j, asg_j = decisions.get(st["t"], ([], []))
        st["t"] += 1
        sus = [Suspend(inv[x["cid"]], x["pool"] - 1) for x in sus_j]
        asg = []
        for a in asg_j:
            ops = [idx.ops[p - 1][i - 1] for p, i in a["ops"]]
            asg.append(Assignment(ops=ops, cpu=a["cpu_real"], ram=a["ram_gb"], priority=PR[a["prio"]], pool_id=a["pool"] - 1,
                                  pipeline_id=ops[0].pipeline.pipeline_id))
        return sus, asg
    key = f"verif:restreplay:{tid}"
    INIT_ALGOS[key], SCHEDULING_ALGOS[key] = init, sched
    p2 = dict(params)
    p2["scheduler_algo"] = key
    try:
        return run_simulator(p2, workload=simrec.ScriptedWorkload(arrivals))
    except BaseException:  # noqa: BLE001
        return None
    finally:
        INIT_ALGOS.pop(key, None)
        SCHEDULING_ALGOS.pop(key, None)


def _one(args):
    seed, tid = args
    return run_case(seed, tid)


def gen_traces(n, seed):
    import multiprocessing as mp
    rng = random.Random(seed)
    jobs = [(rng.randrange(2**31), i) for i in range(n)]
    with common.pool(min(common.NCPU, 8)) as pool:
        return pool.map(_one, jobs)
