"""Driver C: full run_simulator runs over random VALID parameter sets (corners included) with the
real WorkloadGenerator, all shipped policies; recorded sparsely (event ticks only) in obs mode.
Also the 'uncontended' scenarios of C06 (one pipeline, enough memory, step-mode inputs)."""
from __future__ import annotations

import random
from fractions import Fraction as F

from . import common, simrec

TRIPLES = [(0.3, 0.1, 0.6), (0.2, 0.7, 0.1), (1.0, 0.0, 0.0), (0.0, 1.0, 0.0), (0.0, 0.0, 1.0), (0.5, 0.5, 0.0), (0.0, 0.25, 0.75),
           (0.1, 0.2, 0.7), (0.35, 0.35, 0.3), (0.05, 0.9, 0.05), (0.15, 0.15, 0.7), (0.6, 0.3, 0.1)]   # (interactive, query, batch)


def gen_params(rng: random.Random, policies=None):
    policy = rng.choice(list(policies) if policies else ["naive", "priority", "priority-pool", "overbook"])
    tps = rng.choice([1, 1, 10, 10, 10, 100, 1000, 10**4, 10**5])
    max_ticks = rng.choice([0, 1, 5, 200, 800, 2000]) if tps <= 1000 else rng.choice([0, 1, 50, 400])   # <= 2000 s: micro-seconds fit 31 bits
    productive = rng.random() < 0.55
    if productive:        # long enough, and pools large enough, for pipelines to finish: exercises the latency statistics
        tps = rng.choice([1, 1, 2, 10])
        max_ticks = rng.choice([300, 700, 1200]) if tps > 2 else rng.choice([150, 300, 600])
    corner = rng.random()
    if corner < 0.1 and not productive:
        duration = float(F(1, 2 * tps))                   # shorter than one tick
    else:
        duration = float(F(max_ticks, tps)) + 1e-9
    ip, qp, bp = rng.choice(TRIPLES)
    ticks = max(1, max_ticks)
    # bound the number of arrival events (the trace carries every pipeline's states): sub-tick gaps only in short runs
    if ticks <= 12 and rng.random() < 0.5:
        wsm = float(F(1, 2 * tps))
    else:
        wsm = rng.choice([float(F(ticks, tps * rng.choice([3, 8, 15]))), float(F(ticks * 3, tps)), float(F(max(ticks, 30), tps * 10))])
    params = {
        "duration": duration, "ticks_per_second": tps, "waiting_seconds_mean": wsm,
        "num_pipelines": rng.choice([1, 1, 2, 4]), "num_operators": rng.choice([1, 2, 3, 5]),
        "interactive_prob": ip, "query_prob": qp, "batch_prob": bp, "cpu_io_ratio": rng.choice([0.0, 0.2, 0.5, 0.9, 1.0]),
        "scheduler_algo": policy, "num_pools": 2 if policy == "priority-pool" else rng.choice([1, 2, 3, 3, 6, 13]),
        "cpus_per_pool": rng.choice([16, 64]) if productive else rng.choice([1, 4, 16, 64]),
        "ram_gb_per_pool": rng.choice([256, 1000, 100.7]) if productive else rng.choice([0.5, 8, 64, 256, 1000, 12.3, 33.3]),          # RAM is a float: not only whole or half GB
        "multi_operator_containers": True if policy == "priority-pool" else rng.random() < 0.5,
        "allow_memory_overcommit": policy == "overbook", "random_seed": rng.randrange(10**6),
    }
    # a parameter set is a mapping (a TOML table): the order of its keys means nothing
    keys = list(params)
    rng.shuffle(keys)
    return {k: params[k] for k in keys}


def run_random(seed, tid, policies=None):
    rng = random.Random(seed)
    params = gen_params(rng, policies)
    events, stats, exc = simrec.record_run(params, tid=tid, mode="obs", U=1000, sparse=True,
                                           meta={"seed": seed, "driver": "C", "policy": params["scheduler_algo"], "params": params})
    # the configured class probabilities (interactive, query, batch) in millionths, for the clauses about the arrivals of a whole run
    events[0]["cfg"]["probs"] = [int(round(params[k] * 10**6)) for k in ("interactive_prob", "query_prob", "batch_prob")]
    return events


def run_uncontended(seed, tid):
    """One pipeline (chain), enough memory, one pool: it must finish in exactly the ticks its operators need."""
    common.import_repo()
    from eudoxia.workload import Pipeline
    from eudoxia.workload.pipeline import Segment
    from eudoxia.utils import Priority
    rng = random.Random(seed)
    tps = rng.choice([1, 2, 4, 5, 10])
    Q = F(5, tps)
    policy = rng.choice(["naive", "priority", "overbook", "priority-pool"])
    multi = True if policy == "priority-pool" else rng.random() < 0.5
    cpus = rng.choice([1, 2, 4, 10])
    p = Pipeline("u1", rng.choice(list(Priority)))
    exact, prev = {}, None
    for i in range(rng.randint(1, 4)):
        o = p.new_operator([prev] if prev else None)
        for _ in range(rng.choice([1, 1, 2])):
            base = F(4 * rng.choice([0, 1, 2, 5]) + 1, 4 * tps) if rng.random() < 0.8 else F(0)
            kk = rng.choice([0, 0, 1, 2])
            read = (4 * kk + 1) * Q if kk else F(0)
            fixed = rng.choice([None, F(0), Q])
            law = rng.choice(["const", "linear3", "linear7", "squared", "exp"])
            sg = Segment(baseline_cpu_seconds=float(base), cpu_scaling=law, memory_gb=None if fixed is None else float(fixed), storage_read_gb=float(read))
            o.add_segment(sg)
            exact[id(sg)] = {"read": read, "fixed": fixed, "base": base}
        prev = o
    # cpus seen by the container: naive gives the whole pool; priority 10% (>=1); overbook 1.  Use a 1-cpu pool so they coincide.
    cpus = 1
    ram = 1000     # GB: every policy's allocation (>= 100 GB) is above the largest peak (9Q <= 45 GB)
    arrive = rng.randint(0, 5)
    dur = 200
    params = {"duration": float(F(dur, tps)) + 1e-9, "ticks_per_second": tps, "scheduler_algo": policy,
              "num_pools": 2 if policy == "priority-pool" else 1, "cpus_per_pool": cpus, "ram_gb_per_pool": ram,
              "multi_operator_containers": multi, "allow_memory_overcommit": policy == "overbook"}
    wl = simrec.ScriptedWorkload({arrive: [p]})
    events, stats, exc = simrec.record_run(params, tid=tid, workload=wl, exact=exact, mode="step", U=4 * tps,
                                           meta={"seed": seed, "driver": "C-uncontended", "policy": policy, "uncontended": True})
    return events


def _chunk(args):
    kind, seeds, tid0 = args[:3]
    policies = args[3] if len(args) > 3 else None
    common.import_repo()
    if kind == "random":
        return [run_random(sd, tid0 + i, policies) for i, sd in enumerate(seeds)]
    return [run_uncontended(sd, tid0 + i) for i, sd in enumerate(seeds)]


def gen_traces(n, seed, frac_uncontended=0.25, procs=None, policies=None):
    import multiprocessing as mp
    rng = random.Random(seed)
    nu = int(n * frac_uncontended)
    jobs, tid = [], 0
    for kind, m in (("random", n - nu), ("uncontended", nu)):
        seeds = [rng.randrange(2**31) for _ in range(m)]
        step = max(1, (m + 31) // 32)
        for i in range(0, m, step):
            jobs.append((kind, seeds[i:i + step], tid + i, policies))
        tid += m
    with common.pool(procs or common.NCPU) as pool:
        out = pool.map(_chunk, jobs)
    return [tr for ch in out for tr in ch]
