from .. import family_sched


def run(tier):
    return family_sched.run("C12", tier)


def replay(path):
    return family_sched.replay("C12", path)
