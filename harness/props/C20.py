"""C20: the trace tools change only arrival times, within their stated bounds (Tools.tla / TraceTools.tla)."""
import json

from .. import common, driver_tools
from ..common import Report, MachineryError, SPEC

N = {"quick": (900, 500, 24), "thorough": (20000, 10000, 300)}


def _validate(lines, rep):
    files = common.write_shards(lines, common.NCPU, "tools")
    mon = common.run_monitor("TraceTools", "TraceTools.cfg", files)
    byid = {ln[0]["tid"]: ln[0] for ln in lines}
    for v in mon.viols:
        case = byid.get(v[0], {})
        rep.violation(v[2], {"tid": v[0], "detail": v[3], "kind": case.get("kind"), "tps": case.get("tps")},
                      replay={"kind": case.get("kind"), "tps": case.get("tps"), "texts": case.get("texts"), "detail": v[3]}, sig={"clause": v[2]})
    return mon


def run(tier):
    rep = Report("C20", tier)
    rep.assumptions = ["TLC, Json/IOUtils trusted", "floor certificates re-checked exactly (BigNat)", "sample files are compared by SHA-256 digest computed by the harness",
                       "sensitivity_command (the expensive analysis) is stubbed on the harness side while _sensitivity_task runs"]
    r = common.run_tlc("Tools", SPEC / "MC_Tools.cfg", timeout=900, workers=8)
    rep.add_model("MC_Tools", r)
    if r.violated:
        raise MachineryError(f"Tools.tla violates {r.violated}")
    ns, nj, nm = N[tier]
    lines = driver_tools.gen_lines(ns, nj, nm, common.seed() + 20)
    mon = _validate(lines, rep)
    rep.traces, rep.evaluations = mon.traces, mon.counters.get("snap_rows", 0) + mon.counters.get("jitter_rows", 0) + mon.counters.get("samples", 0)
    rep.extra["situations"] = mon.counters
    rep.nontrivial = sum(1 for ln in lines if ln[0]["kind"] != "snap" or len(ln[0]["inp"]) >= 2)
    rep.rule = "real snap_command / jitter_command / _sensitivity_task on generated files (on/off grid, tps 1..100000 incl. non-decimal, delta >= 0 incl. 0, seeds); rows validated by TraceTools.tla"
    rep.samples.append({"kind": "snap", "tps": lines[0][0]["tps"], "texts": lines[0][0].get("texts")})
    c = mon.counters
    need = {"snap_on_grid": 1000, "snap_moved": 1000, "jitter_rows": 2000, "jitter_reordered_files": 50, "samples": 20, "rate_ge_1000": 100}
    lack = {k: c.get(k, 0) for k, m in need.items() if c.get(k, 0) < m}
    if lack and not rep.violations:
        raise MachineryError(f"vacuity: {lack}")
    return rep.finish()


def replay(path):
    print("replay: the violating rows are in the file (texts/detail); re-running the whole check with the same VERIF_SEED reproduces them")
    return run("quick")
