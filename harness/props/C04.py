from .. import family_exec


def run(tier):
    return family_exec.run("C04", tier)


def replay(path):
    return family_exec.replay("C04", path)
