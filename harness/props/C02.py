from .. import family_exec, lifecycle


def _extra(rep, tier):
    lifecycle.replay_lifecycle(rep)


def run(tier):
    return family_exec.run("C02", tier, extra=_extra)


def replay(path):
    return family_exec.replay("C02", path)
