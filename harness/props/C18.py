from .. import family_sched


def run(tier):
    return family_sched.run("C18", tier)


def replay(path):
    return family_sched.replay("C18", path)
