from .. import family_exec


def run(tier):
    return family_exec.run("C03", tier)


def replay(path):
    return family_exec.replay("C03", path)
