from .. import common, family_exec


def _extra(rep, tier):
    # conservation as an INDUCTIVE invariant of an integer abstraction of one pool (any capacity, any allocation sizes, runs of any length)
    r = common.run_apalache_inductive(common.SPEC / "apalache", "MC_PoolAbs", "Init", "IndInit", "IndInv")
    rep.extra["inductive_invariant"] = {"spec": "spec/apalache/PoolAbs.tla", "invariant": "free + sum of allocations = capacity, free >= 0 unless overcommit",
                                        "checker": "apalache-mc 0.58 (--length=0 from Init, --length=1 from IndInit)", "obligations": r}


def run(tier):
    return family_exec.run("C03", tier, extra=_extra)


def replay(path):
    return family_exec.replay("C03", path)
