"""C15: the workload generator emits well-formed pipelines that follow its parameters (Generator.tla / TraceGen.tla)."""
import json

from .. import common, driver_gen
from ..common import Report, MachineryError, SPEC

N = {"quick": 400, "thorough": 8000}


def _validate(lines, rep):
    files = common.write_shards(lines, common.NCPU, "gen")
    mon = common.run_monitor("TraceGen", "TraceGen.cfg", files)
    byid = {ln[0]["tid"]: ln[0] for ln in lines}
    for v in mon.viols:
        case = byid.get(v[0], {})
        rep.violation(v[2], {"tid": v[0], "detail": v[3], "seed": case.get("seed"), "marathon": bool(case.get("marathon"))},
                      replay={"kind": "gen:" + case.get("kind", "run"), "seed": case.get("seed")}, sig={"clause": v[2]})
    return mon


def run(tier):
    rep = Report("C15", tier)
    rep.assumptions = ["TLC, Json/IOUtils trusted", "the RNG proxy delegates every call unchanged (the generated stream is the same with and without it)",
                       "distributional sentences are decided through the ARGUMENTS of the logged draws and a same-seed ratio 0 / ratio 1 pair, not by a statistical test"]
    for cfg in ("MC_Gen", "MC_Gen0"):
        r = common.run_tlc("MC_Gen", SPEC / f"{cfg}.cfg", timeout=600, workers=4)
        rep.add_model(cfg, r)
        if r.violated:
            raise MachineryError(f"Generator.tla violates {r.violated}")
    # besides the random cases: one generator instance emitting > 2^16 pipelines (identity only; in the thorough tier also with every draw)
    lines = driver_gen.gen_lines(N[tier], common.seed() + 15, n_ids=1 if tier == "quick" else 6, n_marathon=0 if tier == "quick" else 3)
    mon = _validate(lines, rep)
    # ... and the generator as run_simulator builds it from a parameter set (keys in any order, probability triples with zeros and ones)
    from .. import driver_sim
    sims = driver_sim.gen_traces(96 if tier == "quick" else 2400, common.seed() + 1515, frac_uncontended=0.0)
    smon = common.run_monitor("TraceSim", "TraceSim.cfg", common.write_shards(sims, common.NCPU, "gensim"))
    by_tid = {tr[0]["tid"]: tr for tr in sims}
    for v in smon.viols:
        if str(v[2]).startswith("C15."):
            meta = (by_tid.get(v[0], [{}])[0].get("meta")) or {}
            rep.violation(v[2], {"tid": v[0], "detail": v[3] if len(v) > 3 else None, "seed": meta.get("seed"), "params": meta.get("params")},
                          replay={"kind": "gen:sim", "seed": meta.get("seed")}, sig={"clause": v[2]})
    rep.extra["simulations_with_probability_clauses"] = smon.counters.get("runs_with_probabilities", 0)
    rep.traces, rep.evaluations = mon.traces + smon.traces, mon.counters.get("pipelines", 0)
    rep.extra["situations"] = mon.counters
    rep.nontrivial = sum(1 for ln in lines if ln[0].get("kind") == "pair" or len(ln) >= 4)
    rep.rule = ("WorkloadGenerator run tick by tick for random parameter sets (probability triples incl. zeros, num_pipelines, num_operators, waiting mean from below one "
                "tick to minutes, cpu_io_ratio in [0,1], tick rates 1..100000) with a logging RNG proxy; non-trivial = at least two arrival events, or a ratio pair")
    ex = next(ln for ln in lines if ln[0].get("kind") == "hdr" and len(ln) >= 3)
    rep.samples.append({"params": {k: ex[0][k] for k in ("tps", "num_pipelines", "num_operators", "probs", "ratio", "mean_ticks")}, "first_event": ex[1]})
    c = mon.counters
    if c.get("events_undecidable_call_pattern", 0):
        print(f"DRIFT: {c['events_undecidable_call_pattern']} arrival events used an RNG call pattern the specification does not know; draw-argument clauses were not decided for them (structure and ratio-pair clauses were)")
    need = {"events": 1500, "later_operators": 3000, "zero_prob_classes": 30, "runs_subtick_mean": 10, "opcount_draws_below_one": 100, "ratio_pairs": 10, "pipelines_identity_only": 66000}
    lack = {k: c.get(k, 0) for k, m in need.items() if c.get(k, 0) < m}
    if lack and not rep.violations:
        raise MachineryError(f"vacuity: {lack}")
    return rep.finish()


def replay(path):
    payload = json.loads(open(path).read())
    rp = payload.get("replay") or {}
    rep = Report("C15", "quick")
    common.import_repo()
    if rp.get("kind") == "gen:sim":
        from .. import driver_sim
        smon = common.run_monitor("TraceSim", "TraceSim.cfg", common.write_shards([driver_sim.run_random(rp["seed"], 0)], 1, "gensim"))
        bad = [v for v in smon.viols if str(v[2]).startswith("C15.")]
        for v in bad[:10]:
            print("  ", json.dumps(v)[:300])
        return 1 if bad else 0
    f = {"gen:pair": driver_gen.pair_case, "gen:idhdr": driver_gen.ids_case}.get(rp.get("kind"), driver_gen.run_case)
    res = f(rp["seed"], 0, marathon=True) if payload.get("detail", {}).get("marathon") else f(rp["seed"], 0)
    mon = _validate([res if isinstance(res, list) else [res]], rep)
    for v in mon.viols[:10]:
        print("  ", json.dumps(v)[:300])
    return 1 if rep.violations else 0
