"""C06: completion, latency and the returned statistics against an independent recount (TraceSim.tla)."""
import json
from collections import Counter

from .. import common, driver_sim, driver_sched
from ..common import Report, MachineryError, SPEC

N = {"quick": 640, "thorough": 16000}


def _validate(traces, rep):
    files = common.write_shards(traces, common.NCPU, "sim")
    mon = common.run_monitor("TraceSim", "TraceSim.cfg", files)
    by_tid = {tr[0]["tid"]: tr for tr in traces}
    for v in mon.viols:
        tr = by_tid.get(v[0], [])
        meta = (tr[0].get("meta") if tr else {}) or {}
        rep.violation(v[2], {"tid": v[0], "tick": v[1], "detail": v[3] if len(v) > 3 else None, "meta": meta},
                      replay={"kind": "driverC", "seed": meta.get("seed"), "driver": meta.get("driver")}, sig={"clause": v[2]})
    # a run that raised returns no statistics at all: that is C08's alarm, but nothing was recounted either
    return mon


def run(tier):
    rep = Report("C06", tier)
    rep.assumptions = ["TLC, Json/IOUtils trusted", "simrec.py recording wrappers are logic-free",
                       "latency statistics are compared in exact integer arithmetic with a tolerance of 2 micro-seconds"]
    for name in ["naive2", "over1"] + (["naive2s", "naive1", "over"] if tier == "thorough" else []):
        r = common.run_tlc("MC_Sched", SPEC / f"MC_Sched_{name}.cfg", timeout=3000, workers=8)
        rep.add_model(f"MC_Sched_{name}", r)
        if r.violated:
            raise MachineryError(f"model MC_Sched_{name} violates {r.violated}")
    # a crowd: more than 10 000 pipelines of one class complete in one run (started first, it is the longest single run)
    import multiprocessing as mp
    ncrowd = 1 if tier == "quick" else 6
    cpool = common.pool(min(ncrowd, 6))
    crowd = [cpool.apply_async(driver_sched.crowd_run, (common.seed() * 7 + 608 + i, 2 * 10**6 + i)) for i in range(ncrowd)]
    traces = driver_sim.gen_traces(N[tier], common.seed() + 606, procs=common.NCPU - min(ncrowd, 6))
    # DAG pipelines (incl. identical parallel sinks that finish in one tick in different containers) through all policies
    extra = driver_sched.gen_traces(N[tier] // 4, common.seed() + 607, flavours=(("mixed", 0.3), ("twins", 0.25), ("fast", 0.25), ("preempt", 0.2)))          # (preempt: runs that end while a suspended container is still being written out)
    for tr in extra:
        for e in tr:
            e["tid"] += 10**6
    traces += extra
    # containers whose priority differs from their pipeline's (the scheduler's choice, e.g. an external policy running everything as QUERY)
    boosted = driver_sched.gen_traces(N[tier] // 8, common.seed() + 609, policies=["naive", "overbook"], flavours=(("mixed", 0.6), ("twins", 0.4)), boost=True)
    for tr in boosted:
        for e in tr:
            e["tid"] += 3 * 10**6
    traces += boosted
    traces += [c.get(timeout=3000) for c in crowd]
    cpool.close()
    rep.extra["crowd_runs"] = [tr[-1]["stats"]["pipelines_all"]["completion_count"] if tr[-1]["ok"] else None for tr in traces[-ncrowd:]]
    mon = _validate(traces, rep)
    rep.traces, rep.evaluations = mon.traces, mon.lines
    rep.extra["situations"] = mon.counters
    rep.extra["runs_that_raised"] = sum(1 for tr in traces if not tr[-1]["ok"])
    rep.nontrivial = sum(1 for tr in traces if tr[-1]["ok"] and any(p[1] >= 0 for p in tr[-1]["pipes"]))
    rep.rule = ("driver C: run_simulator over random valid parameter sets (generator workloads, all policies, corner durations) and uncontended "
                "scripted pipelines; statistics recounted by TraceSim.tla from the recorded events; non-trivial = at least one pipeline completed")
    for tr in traces[:2]:
        rep.samples.append({"params": tr[0]["meta"].get("params"), "stats": tr[-1]["stats"]})
    c = mon.counters
    need = {"completed_pipelines": 800, "empty_classes": 100, "runs_nothing_arrives": 5, "runs_nothing_finishes": 20, "uncontended_runs": 50}
    lack = {k: c.get(k, 0) for k, m in need.items() if c.get(k, 0) < m}
    if lack and not rep.violations:
        raise MachineryError(f"vacuity: {lack}")
    return rep.finish()


def meta_of(payload):
    return ((payload.get("detail") or {}).get("meta")) or {}


def replay(path):
    payload = json.loads(open(path).read())
    rp = payload.get("replay") or {}
    rep = Report("C06", "quick")
    f = {"C-uncontended": driver_sim.run_uncontended, "A-crowd": driver_sched.crowd_run}.get(rp.get("driver"), driver_sim.run_random)
    if rp.get("driver") == "A":
        f = lambda sd, tid: driver_sched.run_scenario(sd, tid, meta_of(payload).get("policy"), meta_of(payload).get("flavour"), boost=bool(meta_of(payload).get("boost")))
    mon = _validate([f(rp["seed"], 0)], rep)
    for v in mon.viols[:10]:
        print("  ", json.dumps(v)[:400])
    return 1 if rep.violations else 0
