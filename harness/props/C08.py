from .. import family_sched


def run(tier):
    return family_sched.run("C08", tier)


def replay(path):
    return family_sched.replay("C08", path)
