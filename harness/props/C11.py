from .. import family_exec


def run(tier):
    return family_exec.run("C11", tier)


def replay(path):
    return family_exec.replay("C11", path)
