from .. import family_exec, lifecycle


def _extra(rep, tier):
    lifecycle.check_dag_iteration(rep, 6)


def run(tier):
    return family_exec.run("C01", tier, extra=_extra)


def replay(path):
    return family_exec.replay("C01", path)
