"""C14: trace files round-trip (CsvOps/CsvFormat.tla model, TraceCsv.tla binding)."""
import json

from .. import common, driver_csv
from ..common import Report, MachineryError, SPEC

N = {"quick": 700, "thorough": 20000}


def _validate(lines, rep):
    files = common.write_shards(lines, common.NCPU, "csv")
    mon = common.run_monitor("TraceCsv", "TraceCsv.cfg", files)
    byid = {ln[0]["tid"]: ln[0] for ln in lines}
    for v in mon.viols:
        case = byid.get(v[0], {})
        rep.violation(v[2], {"tid": v[0], "detail": v[3], "kind": case.get("kind"), "variant": case.get("variant")},
                      replay={"kind": "csv", "seed": case.get("seed")}, sig={"clause": v[2], "variant": case.get("variant")})
    return mon


def run(tier):
    rep = Report("C14", tier)
    rep.assumptions = ["TLC, Json/IOUtils trusted", "numeric cells are canonicalised to repr(float(text)) by the harness: numeric text fidelity is Python's float round trip",
                       "any exception raised while the reader consumes the file counts as refusal"]
    r = common.run_tlc("CsvFormat", SPEC / "MC_Csv.cfg", timeout=1200, workers=8)
    rep.add_model("MC_Csv", r)
    if r.violated:
        raise MachineryError(f"CsvFormat.tla violates {r.violated}")
    lines = driver_csv.gen_lines(N[tier], common.seed() + 14)
    mon = _validate(lines, rep)
    rep.traces, rep.evaluations = mon.traces, mon.counters.get("operators", 0) + mon.counters.get("malformed_files", 0)
    rep.extra["situations"] = mon.counters
    rep.nontrivial = sum(1 for ln in lines if ln[0]["kind"] == "malformed" or any(len(o["par"]) >= 1 for p in ln[0]["w"] for o in p["ops"]))
    rep.rule = ("random workloads (DAGs up to 12 operators with multi-parent operators and several roots, all laws, integer/decimal/tiny/huge/zero values, explicit 0 vs unset "
                "memory, several pipelines per arrival) through the real writer and reader, plus nine malformed variants; non-trivial = has a parent edge or is a malformed file")
    rep.samples.append({"rows": lines[0][0]["rows"][:3]})
    c = mon.counters
    need = {"multi_parent_ops": 500, "malformed_refused": 500, "mem_explicit_zero": 300, "mem_unset": 300}
    lack = {k: c.get(k, 0) for k, m in need.items() if c.get(k, 0) < m}
    if lack and not rep.violations:
        raise MachineryError(f"vacuity: {lack}")
    return rep.finish()


def replay(path):
    payload = json.loads(open(path).read())
    seed = (payload.get("replay") or {}).get("seed")
    rep = Report("C14", "quick")
    common.import_repo()
    mon = _validate(driver_csv.case_lines(seed, 0), rep)
    for v in mon.viols[:10]:
        print("  ", json.dumps(v)[:300])
    return 1 if rep.violations else 0
