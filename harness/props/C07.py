"""C07: runs are reproducible and every policy is evaluated on the same workload (TraceEq.tla)."""
import json

from .. import common, driver_det
from ..common import Report, MachineryError, SPEC

N = {"quick": 48, "thorough": 1200}


def _validate(lines, rep):
    files = common.write_shards(lines, common.NCPU, "det")
    mon = common.run_monitor("TraceEq", "TraceEq.cfg", files)
    byid = {ln[0]["tid"]: ln[0] for ln in lines}
    for v in mon.viols:
        case = byid.get(v[0], {})
        rep.violation(v[2], {"tid": v[0], "detail": v[3], "params": case.get("params")}, replay={"kind": "det", "seed": case.get("seed")}, sig={"clause": v[2]})
    return mon


def run(tier):
    rep = Report("C07", tier)
    rep.assumptions = ["TLC, Json/IOUtils trusted", "the canonical projection (harness/driver_det.canonical) renumbers containers by creation order and drops uuids",
                       "the specification contributes determinism of the composed model and the projection; the verdict is equality of observed behaviours (DESIGN §5 C07)"]
    # model side: the composed specification is deterministic - a fixed scenario has exactly one behaviour
    for cfg in ("MC_Sched_det", "MC_Sched_det2"):
        r = common.run_tlc("MC_Sched", SPEC / f"{cfg}.cfg", timeout=600, workers=2)
        rep.add_model(cfg, r)
        if r.violated:
            raise MachineryError(f"{cfg} violates {r.violated}")
        if r.distinct != r.depth or r.generated != r.distinct:
            raise MachineryError(f"{cfg}: the composed specification is not deterministic ({r.distinct} states, depth {r.depth})")
    lines = driver_det.gen_lines(N[tier], common.seed() + 7)
    mon = _validate(lines, rep)
    rep.traces, rep.evaluations = mon.traces * 5, mon.counters.get("events_compared", 0)
    rep.extra["situations"] = mon.counters
    rep.nontrivial = sum(1 for ln in lines if len(ln[0]["runs"][0]) >= 5)
    rep.rule = ("random parameter sets x {twice in one process after another simulation, fresh interpreters under PYTHONHASHSEED 0 and a second value}, all shipped policies; "
                "arrival sub-behaviour under other scheduler/executor settings and another seed; non-trivial = behaviour with at least five events")
    rep.samples.append({"params": lines[0][0]["params"], "behaviour_head": lines[0][0]["runs"][0][:4]})
    if mon.counters.get("events_compared", 0) < 2000 and not rep.violations:
        raise MachineryError("vacuity: too few events compared")
    return rep.finish()


def replay(path):
    payload = json.loads(open(path).read())
    rep = Report("C07", "quick")
    sd = (payload.get("replay") or {}).get("seed")
    mon = _validate([[driver_det.case(sd, 0)], [driver_det.scenario_case(sd, 1)]], rep)
    for v in mon.viols[:10]:
        print("  ", json.dumps(v)[:300])
    return 1 if rep.violations else 0
