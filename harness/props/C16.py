from .. import family_sched


def run(tier):
    return family_sched.run("C16", tier)


def replay(path):
    return family_sched.replay("C16", path)
