from .. import family_exec, driver_timing


def _extra(rep, tier):
    # the length of a write-out at ANY tick rate (up to 100000 per second, rates that do not divide a power of ten), decided exactly
    mon = driver_timing.check(rep, tier, only="C10")
    rep.traces += mon.traces


def run(tier):
    return family_exec.run("C10", tier, extra=_extra)


def replay(path):
    return family_exec.replay("C10", path)
