from .. import family_exec


def run(tier):
    return family_exec.run("C10", tier)


def replay(path):
    return family_exec.replay("C10", path)
