"""C13: trace replay delivers each pipeline once, at the first tick >= its arrival (TraceReplay.tla / TraceReplayCheck.tla)."""
import json

from .. import common, driver_replay
from ..common import Report, MachineryError, SPEC

N = {"quick": (3000, 240), "thorough": (60000, 4000)}


def _sig(detail):
    d = detail if isinstance(detail, list) else []
    out = {}
    if "sig" in d:
        s = d[d.index("sig") + 1]
        out = {"late": s[0], "float_gt": s[1]}
        if len(s) > 2:
            out["writer_expr"] = s[2]
    return out


def _validate(lines, rep):
    files = common.write_shards(lines, common.NCPU, "replay")
    mon = common.run_monitor("TraceReplayCheck", "TraceReplayCheck.cfg", files)
    if mon.notes:
        raise MachineryError("certificate rejected")
    byid = {ln[0]["tid"]: ln[0] for ln in lines}
    for v in mon.viols:
        case = byid.get(v[0], {})
        sig = dict(_sig(v[3]), clause=v[2])
        rep.violation(v[2], {"tid": v[0], "detail": v[3], "tps": case.get("tps")},
                      replay={"kind": case.get("kind"), "case": {k: case.get(k) for k in ("tps", "texts", "start", "maxticks", "seed")}}, sig=sig)
    return mon


def run(tier):
    rep = Report("C13", tier)
    rep.assumptions = ["TLC, Json/IOUtils trusted", "arrival ticks are certificates re-checked exactly (BigNat) by ReplayOps.CeilOK",
                       "the 'sig' field (IEEE evaluation of the reader's expression) is used only to match the known finding D8, never for the verdict"]
    r = common.run_tlc("TraceReplay", SPEC / "MC_TraceReplay.cfg", timeout=600, workers=4)
    rep.add_model("MC_TraceReplay", r)
    if r.violated:
        raise MachineryError(f"TraceReplay.tla violates {r.violated}")
    nrep, nrt = N[tier]
    lines = driver_replay.gen_lines(nrep, nrt, common.seed() + 13)
    mon = _validate(lines, rep)
    rep.traces, rep.evaluations = mon.traces, mon.counters.get("pipelines", 0)
    rep.extra["situations"] = mon.counters
    rep.nontrivial = sum(1 for ln in lines if ln[0]["kind"] == "replay" and len(set(ln[0]["texts"])) >= 2) + sum(1 for ln in lines if ln[0]["kind"] == "roundtrip" and ln[0]["gen"])
    rep.rule = ("CSV files with arrivals on/off the tick grid, several pipelines per arrival, gaps, arrivals beyond the end, tick rates 1..100000 incl. non-decimal "
                "rates, replayed by the real CSVWorkloadReader+WorkloadTrace; gentrace round trips; non-trivial = at least two distinct arrival values / a non-empty round trip")
    rep.samples.append({k: lines[0][0][k] for k in ("tps", "texts", "deliv", "maxticks")})
    c = mon.counters
    need = {"on_grid": 5000, "band": 100, "beyond_end": 100, "same_tick_neighbours": 2000, "rate_ge_1000": 500}
    lack = {k: c.get(k, 0) for k, m in need.items() if c.get(k, 0) < m}
    if lack and tier == "quick" and not rep.violations:
        raise MachineryError(f"vacuity: {lack}")
    return rep.finish()


def replay(path):
    payload = json.loads(open(path).read())
    case = (payload.get("replay") or {}).get("case") or {}
    rep = Report("C13", "quick")
    common.import_repo()
    if case.get("texts"):
        line = driver_replay.run_case({"tps": case["tps"], "arrivals": case["texts"], "t0": case["start"], "window": case["maxticks"] - case["start"]}, 0)
    elif case.get("cli"):
        line = driver_replay.roundtrip_cli_case(case.get("seed"), 0)
    else:
        line = driver_replay.roundtrip_sim_case(case.get("seed"), 0)
        mon = _validate([[line]], rep)
        line = driver_replay.roundtrip_case(case.get("seed"), 0)
    mon = _validate([[line]], rep)
    for v in mon.viols[:10]:
        print("  ", json.dumps(v)[:300])
    return rep.finish()
