from .. import family_exec


def run(tier):
    return family_exec.run("C09", tier)


def replay(path):
    return family_exec.replay("C09", path)
