from .. import family_exec, driver_timing


def _extra(rep, tier):
    mon = driver_timing.check(rep, tier)
    rep.traces += mon.traces


def run(tier):
    return family_exec.run("C05", tier, extra=_extra)


def replay(path):
    return family_exec.replay("C05", path)
