"""C19: the REST bridge is transparent and keeps its protocol promises (RestBridge.tla / TraceRest.tla)."""
import json

from .. import common, driver_rest
from ..common import Report, MachineryError, SPEC

N = {"quick": 64, "thorough": 1500}


def _validate(traces, rep):
    files = common.write_shards(traces, common.NCPU, "rest")
    mon = common.run_monitor("TraceRest", "TraceRest.cfg", files)
    by = {tr[0]["tid"]: tr for tr in traces}
    for v in mon.viols:
        tr = by.get(v[0], [])
        meta = (tr[0].get("meta") if tr else {}) or {}
        rep.violation(v[2], {"tid": v[0], "tick": v[1], "detail": v[3] if len(v) > 3 else None, "meta": meta}, replay={"kind": "rest", "seed": meta.get("seed")},
                      sig={"clause": v[2]})
    return mon


def run(tier):
    rep = Report("C19", tier)
    rep.assumptions = ["TLC, Json/IOUtils trusted", "the loop-back server and the translation of request bodies into the specification's terms (driver_rest.translate) are logic-free",
                       "the Go reference scheduler is not executed (no Go toolchain): a Python port of go/naive and a scripted universal scheduler are the decision sources",
                       "suspendable containers are found by peeking at the executor on the harness side (the payload does not carry that flag)"]
    r = common.run_tlc("RestBridge", SPEC / "MC_Rest.cfg", timeout=600, workers=8)
    rep.add_model("MC_Rest", r)
    if r.violated:
        raise MachineryError(f"RestBridge.tla violates {r.violated}")
    traces = driver_rest.gen_traces(N[tier], common.seed() + 19)
    mon = _validate(traces, rep)
    rep.traces, rep.evaluations = mon.traces, mon.counters.get("calls", 0)
    rep.extra["situations"] = mon.counters
    rep.extra["runs_that_raised"] = sum(1 for tr in traces if not tr[-1]["ok"])
    rep.nontrivial = sum(1 for tr in traces if tr[-1].get("ncalls_total", 0) >= 3)
    rep.rule = ("run_simulator with scheduler_algo=rest against a loop-back HTTP server (universal scripted scheduler / port of go/naive), DAG workloads, poll intervals 0..2.5 s, "
                "tick rates 1..10; every request validated against the recorded ground truth; non-trivial = at least three calls")
    ex = next((e for tr in traces for e in tr if e["ev"] == "round" and e.get("ncalls")), None)
    rep.samples.append({"request": ex["rest"]["req"] if ex else None})
    c = mon.counters
    need = {"calls": 1500, "idle_calls": 300, "event_calls": 300, "pipelines_reported_complete": 30, "assignments": 300, "ticks_without_call": 300}
    lack = {k: c.get(k, 0) for k, m in need.items() if c.get(k, 0) < m}
    if lack and not rep.violations:
        raise MachineryError(f"vacuity: {lack}")
    return rep.finish()


def replay(path):
    payload = json.loads(open(path).read())
    rep = Report("C19", "quick")
    mon = _validate([driver_rest.run_case((payload.get("replay") or {}).get("seed"), 0)], rep)
    for v in mon.viols[:10]:
        print("  ", json.dumps(v)[:300])
    return 1 if rep.violations else 0
