"""Spec -> code: behaviours of Eudoxia.tla produced by TLC (-simulate, universal scheduler, inadmissible commands
included) are stepped through the REAL Executor and the projected state is compared with TLC's state after every
action: one implementation test per transition TLC took.  Equality only; no logic here.

Model units map to real quantities as: 1 tick/s; one memory unit = 20 GB (so that growth per I/O tick is one unit and
the write-out of r units takes r ticks - configurations with suspDen = 1)."""
from __future__ import annotations

import re
from pathlib import Path

from . import common, tlaval
from .common import SPEC, MachineryError

UNIT = 20.0
REPLAY_CFGS = ["two_long", "press", "chain_long", "diamond_long", "goon", "goon_oc", "extkill", "extkill1"]
# in the quick tier: two base configurations plus the optional behaviours (going on after a refusal, kills from outside) the property is about
QUICK_EXTRA = {"C02": ["extkill1"], "C03": ["goon"], "C04": ["goon_oc"], "C09": ["goon", "extkill1"], "C10": ["goon"], "C11": ["goon_oc"]}
_consts = {}


def constants():
    if _consts:
        return _consts
    f = common.scratch() / "print.cfg"
    f.write_text("SPECIFICATION Spec\nCONSTANTS\n  WL <- WL_two\n  Cfg <- Cfg_long\n  MaxTick = 0\n  MaxAsg = 1\n  MaxOps = 1\n  CpuChoices = {1}\n  RamChoices = {1}\n  PoolChoices = {1}\n  CollapseCrash = TRUE\n  Admissible = FALSE\n  CrossPipe = FALSE\n")
    r = common.run_tlc("MC_ExecPrint", f, workers=1, timeout=300, heap="2g")
    for t in tlaval.find_tuples(r.out, "CONST"):
        _consts[t[1]] = {"wl": t[2], "cfg": t[3]}
    if not _consts:
        raise MachineryError("could not read the model constants:\n" + r.out[-500:])
    return _consts


def simulate(cfgname, num, depth, seed, admissible=False):
    d = common.scratch()
    src = (SPEC / f"MC_Exec_{cfgname}.cfg").read_text()
    src = re.sub(r"MaxTick = \d+", "MaxTick = 8", src).replace("CollapseCrash = TRUE", "CollapseCrash = FALSE")
    src = "\n".join(ln for ln in src.splitlines() if not ln.startswith(("INVARIANT", "PROPERTY"))) + "\n"
    if admissible:
        src = src.replace("Admissible = FALSE", "Admissible = TRUE")
    cfg = d / "replay.cfg"
    cfg.write_text(src)
    r = common.run_tlc("MC_Exec", cfg, workers=1, timeout=900, heap="3g", extra=["-seed", str(seed), "-simulate", f"file={d}/tr,num={num}", "-depth", str(depth)])
    if r.error and "timeout" not in r.error:
        raise MachineryError(f"TLC simulation failed: {r.error}")
    behaviours = []
    for f in sorted(Path(d).glob("tr_*")):
        text = f.read_text()
        steps = []
        for m in re.finditer(r"\\\* <(\w+) [^\n]*\nSTATE_\d+ ==\s*\n((?:.*\n)*?)(?=\n\n|\Z)", text):
            steps.append((m.group(1), tlaval.parse_state_conj(m.group(2))))
        if steps:
            behaviours.append(steps)
    return behaviours, r


def build_real(const):
    from eudoxia.executor import Executor
    from eudoxia.workload import Pipeline
    from eudoxia.workload.pipeline import Segment
    from eudoxia.utils import Priority
    cfg, wl = const["cfg"], const["wl"]
    ex = Executor(num_pools=cfg["np"], cpus_per_pool=cfg["cpucap"], ram_gb_per_pool=cfg["ramcap"] * UNIT, ticks_per_second=1,
                  allow_memory_overcommit=cfg["oc"], multi_operator_containers=cfg["multi"])
    pipes = []
    for pi, p in enumerate(wl):
        pl = Pipeline(f"m{pi + 1}", {"Q": Priority.QUERY, "I": Priority.INTERACTIVE, "B": Priority.BATCH_PIPELINE}[p["prio"]])
        ops = []
        for o in p["ops"]:
            op = pl.new_operator([ops[j - 1] for j in o["par"]] or None)
            for sg in o["segs"]:
                cpu = sg["cpu"]
                if sg["io"] != sg["read"] and not (sg["fixed"] >= 0 and sg["io"] == 0):
                    raise MachineryError("replay: segment with io ticks != read units")
                if len(set(cpu)) == 1:
                    law, base = "const", float(cpu[0])
                elif list(cpu) == [2, 1]:
                    law, base = "linear3", 2.0
                else:
                    raise MachineryError("replay: unsupported cpu profile")
                op.add_segment(Segment(baseline_cpu_seconds=base, cpu_scaling=law, memory_gb=None if sg["fixed"] < 0 else sg["fixed"] * UNIT,
                                       storage_read_gb=sg["read"] * UNIT))
            ops.append(op)
        pl.runtime_status()
        pipes.append((pl, ops))
    return ex, pipes


def project(ex, pipes, cid_of):
    ost = [[o.state().value for o in ops] for _, ops in pipes]
    pools = []
    for R in ex.pools:
        pools.append({"acpu": R.avail_cpu_pool, "aram": R.avail_ram_pool / UNIT, "cons": R.get_consumed_ram_gb() / UNIT,
                      "active": [cid_of.get(c.container_id, 0) for c in R.active_containers],
                      "ctr": [[cid_of.get(c.container_id, 0), c._current_op_idx, c.get_current_memory_usage() / UNIT, bool(c.can_suspend_container())] for c in R.active_containers],
                      "suspending": [[cid_of.get(c.container_id, 0), c._suspend_ticks_left] for c in R.suspending_containers],
                      "suspended": [cid_of.get(c.container_id, 0) for c in R.suspended_containers], "ncomp": R.num_completed})
    return ost, pools


def expected(state):
    s = state["s"]
    pools = []
    for p in s["pools"]:
        pools.append({"acpu": p["acpu"], "aram": float(p["aram"]), "cons": float(p["cons"]), "active": list(p["active"]),
                      "ctr": [[c, s["ctr"][c - 1]["idx"], float(s["ctr"][c - 1]["mem"]), s["ctr"][c - 1]["can"]] for c in p["active"]],
                      "suspending": [[c, s["ctr"][c - 1]["sleft"]] for c in p["suspending"]], "suspended": list(p["suspended"]), "ncomp": p["ncomp"]})
    return [list(x) for x in s["ost"]], pools


COUNTS = {"went_on": [0], "kills": [0]}


def replay_behaviour(steps, const):
    """Returns a list of mismatches (clause, detail)."""
    from eudoxia.executor.assignment import Assignment, Suspend
    ex, pipes = build_real(const)
    cid_of, real_of = {}, {}
    bad = []
    pending_asg = []
    nsteps = 0
    n_goon, n_kill = COUNTS["went_on"], COUNTS["kills"]
    for k in range(1, len(steps)):
        action, st = steps[k]
        crash = st["s"]["crash"]
        nsteps += 1
        if action == "Round":
            pending_asg, raised = [], None
            for a in st["asg"] if crash == "" else steps[k][1].get("asg", []):
                pass
            cmds = st["asg"]
            if crash != "":
                # the rejected batch is not kept in the state: nothing to execute; the model says construction fails
                return bad, nsteps, "round-crash"
            for a in cmds:
                ops = [pipes[o[0] - 1][1][o[1] - 1] for o in a["ops"]]
                try:
                    pending_asg.append(Assignment(ops, a["cpu"], a["ram"] * UNIT, pipes[a["ops"][0][0] - 1][0].priority, a["pool"] - 1, pipes[a["ops"][0][0] - 1][0].pipeline_id))
                except Exception as e:  # noqa: BLE001
                    raised = e
                    break
            if raised is not None:
                bad.append(("replay.round.raise", {"step": k, "asg": cmds, "exc": repr(raised)[:100]}))
                return bad, nsteps, "mismatch"
            got = [[o.state().value for o in ops] for _, ops in pipes]
            if got != [list(x) for x in st["s"]["ost"]]:
                bad.append(("replay.C02.ost.round", {"step": k, "spec": st["s"]["ost"], "code": got}))
        elif action == "ExtKill":
            prev = steps[k - 1][1]
            killed = [c + 1 for c in range(len(st["s"]["ctr"])) if st["s"]["ctr"][c]["done"] and not prev["s"]["ctr"][c]["done"]]
            objs = [c for R in ex.pools for c in R.active_containers if cid_of.get(c.container_id) in killed]
            if len(killed) != 1 or len(objs) != 1:
                raise MachineryError(f"ExtKill step {k}: cannot identify the container ({killed}, {len(objs)} objects)")
            objs[0].kill(st["s"]["ctr"][killed[0] - 1]["err"])
            n_kill[0] += 1
            got = [[o.state().value for o in ops] for _, ops in pipes]
            if got != [list(x) for x in st["s"]["ost"]]:
                bad.append(("replay.C02.ost.kill", {"step": k, "spec": st["s"]["ost"], "code": got}))
                return bad, nsteps, "mismatch"
        elif action == "Exec":
            prev = steps[k - 1][1]
            sus = [Suspend(real_of.get(x["cid"], f"unknown{x['cid']}"), x["pool"] - 1) for x in prev["sus"]]
            try:
                res = ex.run_one_tick(sus, pending_asg)
                raised = None
            except BaseException as e:  # noqa: BLE001
                raised, res = e, []
            # a configuration with goOn: the caller catches a refusal and goes on; the model's state is then what the refused call left behind
            went_on = raised is not None and crash == "" and bool(const["cfg"].get("goOn"))
            if went_on:
                n_goon[0] += 1
            if (raised is not None) != (crash != "") and not went_on:
                bad.append(("replay.reject." + (crash or "none"), {"step": k, "spec_crash": crash, "code_raised": repr(raised)[:100], "sus": prev["sus"], "asg": prev["asg"]}))
                return bad, nsteps, "mismatch"
            if crash != "":
                return bad, nsteps, "exec-crash:" + crash
            # learn container ids in creation order
            ids = []
            for R in ex.pools:
                for lst in (R.active_containers, R.suspending_containers, R.suspended_containers):
                    ids += [c.container_id for c in lst]
            ids += [r.container_id for r in res]
            for rid in sorted(set(ids) - set(cid_of), key=lambda x: int("".join(ch for ch in x if ch.isdigit()) or 0)):
                cid_of[rid] = len(cid_of) + 1
                real_of[cid_of[rid]] = rid
            ost, pools = project(ex, pipes, cid_of)
            eost, epools = expected(st)
            if ost != eost:
                bad.append(("replay.C02.ost", {"step": k, "spec": eost, "code": ost}))
            for i, (g, e) in enumerate(zip(pools, epools)):
                for fld, clause in (("acpu", "replay.C03.free"), ("aram", "replay.C03.free"), ("cons", "replay.C04.cons"), ("active", "replay.C09.containers"),
                                    ("ctr", "replay.C05.ctr"), ("suspending", "replay.C10.lists"), ("suspended", "replay.C10.lists"), ("ncomp", "replay.C09.results")):
                    same = (sorted(map(str, g[fld])) == sorted(map(str, e[fld]))) if isinstance(g[fld], list) else g[fld] == e[fld]
                    if not same:
                        bad.append((clause, {"step": k, "pool": i + 1, "field": fld, "spec": e[fld], "code": g[fld]}))
            gres = [[cid_of.get(r.container_id, 0), r.error or ""] for r in res]
            eres = [[r["cid"], r["err"]] for r in st["s"]["results"]]
            if sorted(map(str, gres)) != sorted(map(str, eres)):
                bad.append(("replay.C09.results", {"step": k, "spec": eres, "code": gres}))
            pending_asg = []
            if bad:
                return bad, nsteps, "mismatch"
    return bad, nsteps, "end"


def run(rep, prop, tier):
    common.import_repo()
    consts = constants()
    num = 120 if tier == "quick" else 3000
    total = steps = 0
    outcomes = {}
    for i, cfg in enumerate(REPLAY_CFGS if tier == "thorough" else (REPLAY_CFGS[:2] if prop not in ("C11", "C04") else ["press", "two_long"]) + QUICK_EXTRA.get(prop, [])):
        behaviours, r = simulate(cfg, num, 16, common.seed() + i)
        b2, r2 = simulate(cfg, num, 18, common.seed() + 100 + i, admissible=True)
        rep.transitions += r.generated + r2.generated
        for b in behaviours + b2:
            bad, n, how = replay_behaviour(b, consts[cfg])
            total += 1
            steps += n
            outcomes[how.split(":")[0]] = outcomes.get(how.split(":")[0], 0) + 1
            for clause, det in bad:
                m = re.match(r"replay\.(C\d\d)\.", clause)
                owner = m.group(1) if m else {"over_cpu": "C03", "over_ram": "C03", "deps": "C01", "transition": "C02", "no_such_pool": "C09",
                                              "suspend_unknown": "C10", "suspend_not_boundary": "C10", "none": "C05"}.get(clause.split(".")[-1], "C09")
                if owner == prop or clause.startswith("replay.round"):
                    rep.violation(clause, dict(det, config=cfg), replay={"kind": "tlc-behaviour", "config": cfg, "behaviour": b}, sig={"clause": clause})
    rep.extra["tlc_behaviours_replayed"] = total
    rep.extra["tlc_transitions_replayed"] = steps
    rep.extra["replay_outcomes"] = outcomes
    rep.extra["replay_refusals_gone_on_after"] = COUNTS["went_on"][0]
    rep.extra["replay_kills_from_outside"] = COUNTS["kills"][0]
    return total
