"""Driver E (CSV): workloads as real Pipeline objects -> WorkloadTraceGenerator + CSVWorkloadWriter -> file ->
CSVWorkloadReader (C14), and malformed variants of those files.  Numeric cells are canonicalised to
repr(float(text)) on the harness side (numeric text fidelity is Python's float round trip, checked as such);
structure, order, blanks and refusals are decided by TraceCsv.tla against CsvOps."""
from __future__ import annotations

import csv
import io
import random

from . import common

VALUES = [0.0, 1.0, 2.5, 1e-9, 1e12, 37.5, 0.001, 15, 80, 3]
LAWS = ["const", "log", "sqrt", "linear3", "linear7", "squared", "exp"]
NUMCOLS = ("baseline_cpu_seconds", "memory_gb", "storage_read_gb", "arrival_seconds")


def canon(text):
    t = (text or "").strip()
    return repr(float(t)) if t else ""


def rows_json(text):
    rows = list(csv.DictReader(io.StringIO(text)))
    out = []
    for r in rows:
        par = [p.strip() for p in (r.get("parents") or "").split(";") if p.strip()]
        pid = r["pipeline_id"]
        pid = int(pid[1:]) if pid.startswith("p") and pid[1:].isdigit() else abs(hash(pid)) % 10**6 + 10**6
        out.append({"pid": pid, "arr": canon(r.get("arrival_seconds")), "prio": (r.get("priority") or "").strip(),
                    "opid": opid(r["operator_id"]), "parents": [opid(p) for p in par],
                    "cpu": canon(r["baseline_cpu_seconds"]), "law": r["cpu_scaling"], "mem": canon(r.get("memory_gb")), "read": canon(r["storage_read_gb"])})
    return out


def opid(s):
    s = s.strip()
    if s.startswith("op") and s[2:].isdigit():
        return ["op", int(s[2:])]
    return ["id", abs(hash(s)) % 1000 + 1000]


def project(pipes_with_arrival, intent=False):
    """[(arrival_seconds, Pipeline)] -> the structural projection the spec speaks about.
    intent=True: the structure the driver meant to build (recorded while building), not what the objects say now."""
    out = []
    for arr, p in pipes_with_arrival:
        if intent and hasattr(p, "_verif_intent"):
            out.append({"prio": p.priority.name, "arr": repr(float(arr)), "ops": list(p._verif_intent)})
            continue
        ops = [p.values.node_lookup[i] for i in p.values.node_ids]
        pos = {id(o): k + 1 for k, o in enumerate(ops)}
        jops = []
        for o in ops:
            sg = o.get_segments()[0]
            law = next((n for n, f in type(sg).SCALING_FUNCS.items() if f == sg.scaling_func), "callable")
            jops.append({"par": [pos[id(q)] for q in o.parents], "cpu": repr(float(sg.baseline_cpu_seconds)), "law": law,
                         "mem": "" if sg.memory_gb is None else repr(float(sg.memory_gb)), "read": repr(float(sg.storage_read_gb))})
        out.append({"prio": p.priority.name, "arr": repr(float(arr)), "ops": jops})
    return out


def write_workload(pipes_at_ticks, tps, nticks):
    from eudoxia.workload.csv_io import CSVWorkloadWriter, WorkloadTraceGenerator

    class W:
        def __init__(self):
            self.t = 0

        def run_one_tick(self):
            out = pipes_at_ticks.get(self.t, [])
            self.t += 1
            return out
    buf = io.StringIO()
    wr = CSVWorkloadWriter(buf)
    for row in WorkloadTraceGenerator(workload=W(), ticks_per_second=tps, duration_secs=nticks / tps + 1e-9).generate_rows():
        wr.write_row(row)
    return buf.getvalue()


def read_workload(text, tps=10):
    from eudoxia.workload.csv_io import CSVWorkloadReader
    out = []
    for pa in CSVWorkloadReader(io.StringIO(text)).batch_by_pipeline():
        out.append((pa.arrival_seconds, pa.pipeline))
    return out


CALLABLE_OF = {"const": "_const", "log": "_log_scale", "sqrt": "_sqrt", "linear3": "_linear_bnded_three", "linear7": "_linear_bnded_seven",
               "squared": "_squared", "exp": "_exponential_bnd"}


def make_workload(rng):
    from eudoxia.workload import Pipeline
    from eudoxia.workload.pipeline import Segment
    from eudoxia.utils import Priority
    tps = rng.choice([1, 10, 100, 1000])
    nticks = rng.randint(2, 30)
    at = {}
    npipes = rng.randint(1, 6)
    same_ids = rng.random() < 0.15       # e.g. two generators that both number from p1: the writer assigns the ids of the file
    for k in range(npipes):
        p = Pipeline("p1" if same_ids else f"x{k}", rng.choice(list(Priority)))
        n = rng.choice([1, 1, 2, 3, 5, 8, 12])
        ops = []
        intent = p._verif_intent = []          # what the driver MEANT to build (the objects themselves are what is under test)
        for i in range(n):
            pa = sorted(rng.sample(range(i), min(i, rng.choice([0, 1, 1, 2, 3])))) if i else []
            plist = [ops[j] for j in pa]
            o = p.new_operator(plist or None)
            if plist and rng.random() < 0.3:
                # the list handed to new_operator is the caller's: a scratch list that is reused for the next operator
                plist.clear() if rng.random() < 0.5 else plist.append(o)
            mem = rng.choice([None, None, 0.0, 0, rng.choice(VALUES)])
            law = lawname = rng.choice(LAWS)
            if rng.random() < 0.2:          # the callable form of cpu_scaling: the function itself instead of its name
                from eudoxia.workload.pipeline import ScalingFuncs
                law = getattr(ScalingFuncs, CALLABLE_OF[law])
            cpu_s, read_s = rng.choice(VALUES), rng.choice(VALUES)
            o.add_segment(Segment(baseline_cpu_seconds=cpu_s, cpu_scaling=law, memory_gb=mem, storage_read_gb=read_s))
            ops.append(o)
            intent.append({"par": [j + 1 for j in pa], "cpu": repr(float(cpu_s)), "law": lawname, "mem": "" if mem is None else repr(float(mem)), "read": repr(float(read_s))})
        at.setdefault(rng.randrange(nticks), []).append(p)
    return at, tps, nticks


MALFORMED = ["first_no_prio", "first_no_arr", "later_prio", "later_arr", "later_both", "bad_prio", "bad_law", "undefined_parent", "forward_parent", "lowercase_prio"]


def mutate(text, variant, rng):
    rows = list(csv.DictReader(io.StringIO(text)))
    fields = list(rows[0].keys())
    firsts = [i for i, r in enumerate(rows) if r["priority"].strip()]
    laters = [i for i, r in enumerate(rows) if not r["priority"].strip()]
    i = rng.choice(firsts)
    if variant == "first_no_prio":
        rows[i]["priority"] = ""
    elif variant == "first_no_arr":
        rows[i]["arrival_seconds"] = ""
    elif variant == "later_prio":
        if not laters:
            return None
        rows[rng.choice(laters)]["priority"] = "QUERY"
    elif variant == "later_arr":
        if not laters:
            return None
        rows[rng.choice(laters)]["arrival_seconds"] = "1.0"
    elif variant == "later_both":          # a later row that looks like the first row of another pipeline, under the same id
        if not laters:
            return None
        j = rng.choice(laters)
        rows[j]["arrival_seconds"] = "1.0"
        rows[j]["priority"] = "QUERY"
        if rng.random() < 0.7:
            rows[j]["parents"] = ""
    elif variant == "bad_prio":
        rows[i]["priority"] = "URGENT"
    elif variant == "lowercase_prio":
        rows[i]["priority"] = "query"
    elif variant == "bad_law":
        rows[rng.randrange(len(rows))]["cpu_scaling"] = "cubic"
    elif variant == "undefined_parent":
        rows[rng.randrange(len(rows))]["parents"] = "op77"
    elif variant == "forward_parent":
        rows[i]["parents"] = "op2"
    buf = io.StringIO()
    w = csv.DictWriter(buf, fieldnames=fields)
    w.writeheader()
    w.writerows(rows)
    return buf.getvalue()


def case_lines(seed, tid0):
    rng = random.Random(seed)
    at, tps, nticks = make_workload(rng)
    intended = []
    for t in sorted(at):
        for p in at[t]:
            intended.append((t * (1.0 / tps), p))
    try:
        text = write_workload(at, tps, nticks)
    except Exception as e:  # noqa: BLE001 - the writer must accept every well-formed workload
        return [[{"kind": "roundtrip", "tid": tid0, "wrote": False, "err": f"{type(e).__name__}: {str(e)[:120]}", "w": project(intended, intent=True),
                  "rows": [], "back": [], "backok": False, "rows2": [], "seed": seed}]]
    lines = []
    try:
        back = read_workload(text)
        backj = project(back)
        text2 = write_workload_from_read(back, tps)
    except Exception as e:  # noqa: BLE001
        backj, text2 = None, text
    lines.append([{"kind": "roundtrip", "tid": tid0, "wrote": True, "err": "", "w": project(intended, intent=True), "rows": rows_json(text), "back": backj or [], "backok": backj is not None, "rows2": rows_json(text2),
                   "seed": seed}])
    for k, variant in enumerate(rng.sample(MALFORMED, 4)):
        bad = mutate(text, variant, rng)
        if bad is None:
            continue
        try:
            read_workload(bad)
            refused = False
        except Exception:  # noqa: BLE001 - any exception is a refusal
            refused = True
        lines.append([{"kind": "malformed", "tid": tid0 + 1 + k, "variant": variant, "rows": rows_json(bad), "refused": refused, "seed": seed}])
    # and the untouched file is accepted
    lines.append([{"kind": "malformed", "tid": tid0 + 6, "variant": "none", "rows": rows_json(text), "refused": backj is None, "seed": seed}])
    return lines


def write_workload_from_read(back, tps):
    """read pipelines -> write again (arrival column aside): the pipelines are delivered one per tick in order."""
    at = {i: [p] for i, (a, p) in enumerate(back)}
    return write_workload(at, tps, len(back) + 1)


def _chunk(args):
    seeds, tid0 = args
    common.import_repo()
    out = []
    for i, sd in enumerate(seeds):
        out.extend(case_lines(sd, tid0 + i * 8))
    return out


def gen_lines(n, seed):
    import multiprocessing as mp
    rng = random.Random(seed)
    seeds = [rng.randrange(2**31) for _ in range(n)]
    per = max(1, n // 32)
    jobs = [(seeds[i:i + per], i * 8) for i in range(0, n, per)]
    with common.pool(common.NCPU) as pool:
        out = pool.map(_chunk, jobs)
    return [x for ch in out for x in ch]
