"""Driver B: a seeded random commander against the REAL Executor (DESIGN §4.4).

Produces command sequences - admissible, borderline and inadmissible - on random DAG
pipelines, pool sizes, overcommit on/off and both container modes, and records each run as a
trace (rec.ExecTrace) for TraceExec.tla.  The driver only chooses inputs; it judges nothing.

Inputs are on a decimal grid and OFF tick boundaries ((k + 1/4) ticks) so that the code's
float arithmetic decides every tick count uniquely and the monitor can step exactly; memory
limits are hit exactly on purpose (band cases are resolved by the monitor's hints).
"""
from __future__ import annotations

import random
from fractions import Fraction as F

from . import common
from .rec import ExecTrace, PipeIndex, to_units

RATIONAL_LAWS = ["const", "linear3", "linear7", "squared", "exp"]


def build_scenario(rng: random.Random, mode: str):
    common.import_repo()
    from eudoxia.executor import Executor
    from eudoxia.workload import Pipeline
    from eudoxia.workload.pipeline import Segment
    from eudoxia.utils import Priority

    tps = rng.choice([1, 2, 4, 5, 10])
    if mode in ("valid", "mixed", "pressure", "swarm", "susp") and rng.random() < 0.15:
        # very fine ticks: memory moves in steps of a quarter megabyte and less, pools of a few dozen megabytes.  (Rates of the form
        # 5 * 2^k keep the quantum Q = 5 / tps GB a power of two, so every memory figure stays an exact float.)
        tps = rng.choice([10240, 81920])
    huge = False
    U = 4 * tps
    Q = F(5, tps)            # the quantum: 20 units, a quarter of the memory read in one I/O tick; a*Q is an exact float
    if mode == "orphan":
        mode = "susp"
    reject = mode == "reject"       # one pool, many inadmissible commands, and the caller goes on after each refusal
    if reject:
        mode = "mixed"
    if mode == "swarm":        # many small containers start at once in an overcommitted pool: ten and more victims in one tick
        npools, cpu, ram = 1, rng.choice([16, 24, 32, 80]), Q * rng.choice([16, 24, 32, 48])
        oc, multi = True, False
    elif mode == "pressure":
        npools, cpu, ram = rng.choice([1, 1, 2]), rng.choice([4, 6, 8]), Q * rng.choice([8, 12, 16, 24, 40])
        oc, multi = True, rng.random() < 0.5
    elif mode in ("susp", "orphan"):
        npools, cpu, ram = rng.choice([1, 2]), rng.choice([3, 4, 8]), Q * rng.choice([32, 64, 40])
        oc, multi = rng.random() < 0.3, True
    else:
        npools = rng.choice([1, 2, 3, 3, 12])          # two-digit pool numbers too
        cpu = rng.choice([1, 2, 4, 8])
        ram = Q * rng.choice([2, 8, 16, 32, 64, 10])
        oc = rng.random() < 0.5
        multi = rng.random() < 0.7
    if reject:
        npools, multi = 1, rng.random() < 0.8
        cpu, ram = rng.choice([2, 3, 4]), Q * rng.choice([16, 32, 40, 64])
    if mode == "mixed" and not reject and rng.random() < 0.08:
        # a very large pool: a batch that oversells its RAM by one quarter GB is a relative excess of 1e-9
        tps, U, Q = 1, 4, F(5)
        npools, ram, oc = 1, F(2**28), False
        huge = True
    ex = Executor(num_pools=npools, cpus_per_pool=cpu, ram_gb_per_pool=float(ram), ticks_per_second=tps,
                  allow_memory_overcommit=oc, multi_operator_containers=multi)
    idx = PipeIndex()
    exact = {}
    npipes = rng.randint(2, 6) if mode == "pressure" else (rng.randint(70, 95) if cpu >= 80 else rng.randint(14, 30)) if mode == "swarm" else rng.randint(1, 4)
    for pi in range(npipes):
        p = Pipeline(f"p{pi + 1}", rng.choice(list(Priority)))
        nops = rng.randint(1, 3) if mode == "pressure" else rng.randint(2, 4) if mode == "susp" else 1 if mode == "swarm" else rng.randint(1, 4)
        ops = []
        meant = p._verif_par = []
        for i in range(nops):
            pa = [j for j in range(i) if rng.random() < (0.3 if mode == "pressure" else 0.5)]
            plist = [ops[j] for j in pa]
            o = p.new_operator(plist or None)
            meant.append([j + 1 for j in pa])
            if plist and rng.random() < 0.25:
                plist.clear() if rng.random() < 0.5 else plist.append(o)          # the caller's scratch list, reused after the call
            for _ in range(rng.choice([1, 1, 1, 2])):
                law = rng.choice(RATIONAL_LAWS)
                base = F(4 * rng.choice([0, 1, 3, 5, 9, 15]) + 1, 4 * tps)   # (k + 1/4) ticks on one cpu: never on a boundary
                if rng.random() < 0.2:
                    base = F(0)
                if mode == "swarm":
                    fixed = Q * rng.choice([2, 3, 4, 5, 6, 8]) if cpu < 80 else Q * rng.choice([F(1, 2), F(1, 2), 1])    # a large herd of lightly loaded containers
                    kk = 0
                    base = F(4 * rng.choice([2, 3, 5]) + 1, 4 * tps)
                elif mode == "pressure":
                    fixed = rng.choice([None, None, None, Q, 3 * Q])
                    kk = rng.choice([1, 2, 3, 4, 6, 8])
                elif mode == "susp":
                    fixed = rng.choice([None, None, F(0), Q, 3 * Q])
                    kk = rng.choice([0, 1, 1, 2])
                else:
                    fixed = rng.choice([None, None, None, F(0), Q / 2, Q, 3 * Q, 9 * Q])
                    kk = rng.choice([0, 0, 1, 1, 2, 3, 5])
                read = (4 * kk + 1) * Q if kk else F(0)                              # kk + 1/4 I/O ticks, peak (4kk+1)Q
                sg = Segment(baseline_cpu_seconds=float(base), cpu_scaling=law,
                             memory_gb=None if fixed is None else float(fixed), storage_read_gb=float(read))
                o.add_segment(sg)
                exact[id(sg)] = {"read": read, "fixed": fixed, "base": base}
                if rng.random() < 0.04:
                    o.add_segment(sg)          # a stage template used twice: the SAME Segment object is two segments of the operator
            ops.append(o)
        p.runtime_status()
        idx.add(p)
    return ex, idx, exact, dict(tps=tps, U=U, npools=npools, cpu=cpu, ram=ram, oc=oc, multi=multi, Q=Q, huge=huge)


def run_one(seed: int, tid: int, mode: str):
    """One trace.  mode: valid | mixed | pressure | susp | swarm | orphan."""
    orphan_mode = mode == "orphan"
    reject_mode = mode == "reject"
    if orphan_mode:
        mode = "susp"
    from eudoxia.executor.assignment import Assignment, Suspend
    from eudoxia.workload import OperatorState as S

    rng = random.Random(seed)
    # container ids come from a process-global public counter: start each trace at a small or a digit-boundary value, so that ids of
    # different lengths (c9/c10, c1/c12) coexist as they do in a fresh process
    from eudoxia.executor.container import Container
    Container.next_container_num = rng.choice([1, 1, 1, 8, 97, 995])
    ex, idx, exact, k = build_scenario(rng, mode)
    if reject_mode:
        mode = "mixed"
    tps, npools, cpu, ram, oc, multi = k["tps"], k["npools"], k["cpu"], k["ram"], k["oc"], k["multi"]
    tr = ExecTrace(tid, ex, idx, k["U"], tps, mode="step", exact=exact, overcommit=oc, multi=multi,
                   meta={"seed": seed, "driver": "B", "mode": "orphan" if orphan_mode else "reject" if reject_mode else mode})
    valid = mode != "mixed"
    nticks = rng.randint(5, 40) if mode != "swarm" else rng.randint(6, 14)
    if reject_mode:
        nticks = rng.randint(25, 60)
    pipes = list(zip(idx.pipes, idx.ops))
    seen_ctr = []   # real container ids seen so far (for bogus suspends)
    distract_at = rng.randrange(nticks) if rng.random() < 0.25 else -1
    kills = mode in ("valid", "mixed", "susp", "pressure") and rng.random() < 0.2
    for t in range(nticks):
        if reject_mode:          # most rounds are admissible (so that work goes on); the others carry an oversold or otherwise refused batch
            valid = rng.random() < 0.6
        if t == distract_at:
            # another simulation is set up in the same process while this one is live: it must not disturb this executor
            from eudoxia.executor import Executor as _Ex
            _Ex(num_pools=1, cpus_per_pool=2, ram_gb_per_pool=4.0, ticks_per_second=tps)
        # now and then somebody kills a live container from outside (the public Container.kill), between two ticks
        if kills and rng.random() < 0.12:
            live = [c for R in ex.pools for c in R.active_containers if not c.is_completed()]
            if live:
                c = rng.choice(live)
                c.kill("evicted")
                tr.killed(c.container_id, "evicted")
        sus = []
        for kpool, R in enumerate(ex.pools):
            for c in R.active_containers:
                if c.container_id not in seen_ctr:
                    seen_ctr.append(c.container_id)
                if c.can_suspend_container():
                    pr = 0.15 if mode == "pressure" else 0.6 if mode == "susp" else 0.4
                else:
                    pr = 0.0 if valid else 0.02
                if rng.random() < pr:
                    pool = kpool if valid or rng.random() < 0.95 else rng.randint(-1, npools + 1)
                    sus.append(Suspend(c.container_id, pool))
                    if not valid and rng.random() < 0.03:
                        sus.append(Suspend(c.container_id, pool))          # twice in one batch
        if not valid and rng.random() < 0.02 and seen_ctr:
            sus.append(Suspend(rng.choice(seen_ctr + ["c0"]), rng.randrange(npools)))   # any container ever seen / unknown
        specs = []
        for _ in range(rng.choice([0, 0, 1, 1, 2]) if mode not in ("pressure", "swarm") else rng.choice([0, 1, 1, 2, 3]) if mode == "pressure" else (rng.choice([0, 6, 12, 16]) if cpu < 80 else rng.choice([0, 30, 40]))):
            pi = rng.randrange(len(pipes))
            p, ops = pipes[pi]
            legal = [i for i, o in enumerate(ops) if o.state() in (S.PENDING, S.FAILED)]
            orphan = [i for i in legal if any(q.state() != S.COMPLETED for q in ops[i].parents)]
            # (orphan mode: an otherwise admissible run that, once some suspension has finished, starts a handed-back operator ahead of its parent)
            if orphan_mode and orphan and any(R.suspended_containers for R in ex.pools) and rng.random() < 0.5:
                sel = [rng.choice(orphan)]
                valid = False
            elif not valid and not reject_mode and orphan and rng.random() < 0.25:
                sel = [rng.choice(orphan)]                 # a child on its own while a parent is unfinished: must be rejected, never executed
            elif not valid and multi and legal and len(legal) < len(ops) and rng.random() < (0.7 if any(ops[i].state() == S.FAILED for i in legal) else 0.1):
                # an operator that can be taken (pending, or failed and up for a retry) listed AHEAD of one that cannot (assigned, running,
                # suspending, completed): the request is refused after the first one was already touched - what it is left as is observed
                first = [i for i in legal if ops[i].state() == S.FAILED] or legal
                sel = [rng.choice(first), rng.choice([i for i in range(len(ops)) if i not in legal])]
            elif valid or reject_mode or rng.random() < 0.9:
                if not legal:
                    continue
                if multi and rng.random() < (0.9 if mode == "susp" else 0.6):
                    sel = [i for i in legal if rng.random() < 0.7] or legal[:1]
                    if not valid and rng.random() < 0.08:
                        rng.shuffle(sel)
                else:
                    rdy = [i for i in legal if all(q.state() == S.COMPLETED for q in ops[i].parents)] or legal
                    sel = [rng.choice(rdy)]
                    if not valid and not multi and len(rdy) >= 2 and rng.random() < 0.3:
                        sel = rng.sample(rdy, 2)          # two operators for a one-operator container: refused (operator count)
            else:
                sel = [rng.randrange(len(ops)) for _ in range(rng.randint(0, 2))]
            # occasionally a container mixing operators of TWO pipelines (ready operators only, so admissible)
            cross = None
            if multi and len(pipes) >= 2 and rng.random() < (0.3 if mode == "susp" else 0.12):
                pj = rng.choice([x for x in range(len(pipes)) if x != pi])
                ops2 = pipes[pj][1]
                rdy2 = [i for i, o in enumerate(ops2) if o.state() in (S.PENDING, S.FAILED) and all(q.state() == S.COMPLETED for q in o.parents)]
                if rdy2 and not any(x[0] == pj or (x[5] and x[5][0] == pj) for x in specs) and not any(x[5] and x[5][0] == pi for x in specs):
                    cross = (pj, sorted(rng.sample(rdy2, min(len(rdy2), rng.choice([1, 1, 2])))))
            pool = rng.randrange(npools) if valid or rng.random() < 0.97 else rng.choice([-1, npools, npools + 3])
            R = ex.pools[pool] if 0 <= pool < npools else ex.pools[0]
            Q = k["Q"]
            if mode == "swarm":
                c = 1
                r = Q * rng.choice([6, 8, 9, 12, 16, 20, 25, 32]) if cpu < 80 else Q * rng.choice([16, 32, 32, 64])
            elif mode == "pressure":
                c = 1
                r = Q * rng.choice([2, 4, 5, 8, 9, 12, 13, 16, 21, 24, 32, 64])
            elif mode == "susp":
                c = rng.choice([1, 1, 2])
                r = Q * rng.choice([1, 3, 4, 5, 8, 9, 9, 12, 13, 16, 21])
            else:
                c = rng.choice([1, 1, 2, max(1, R.avail_cpu_pool), cpu]) if valid or rng.random() < (0.8 if reject_mode else 0.9) else rng.choice([0, cpu + 1, R.avail_cpu_pool + 1])
                r = (rng.choice([Q * rng.choice([1, 2, 4, 5, 8, 9, 12, 13, 16, 21, 24, 32]),
                                 F(R.avail_ram_pool) if R.avail_ram_pool * k["U"] >= 1 else Q, ram])          # (not a float residue of 1e-15 GB: it projects to 0 units)
                     if valid or rng.random() < (0.85 if reject_mode else 0.94) else rng.choice([F(0), F(R.avail_ram_pool) + F(1, k["U"])]))
            if 0 < r * k["U"] < F(1, 2):
                r = F(0)          # a float residue (free RAM of -1 unit + 1 unit = 3e-15 GB) is not a request anybody makes: ask for nothing, which both sides refuse
            if k["huge"] and rng.random() < 0.35 and R.avail_ram_pool > 0:
                r = F(R.avail_ram_pool) + F(1, k["U"])          # oversold by a relative 1e-9
            if valid:
                used = sum(x[2] for x in specs if x[4] == pool)
                usedr = sum(x[3] for x in specs if x[4] == pool)
                if c + used > R.avail_cpu_pool:
                    continue
                if not oc and r + usedr > F(R.avail_ram_pool):
                    continue
                if any(set(sel) & set(x[1]) for x in specs if x[0] == pi):
                    continue
                if any(x[5] and x[5][0] == pi and set(x[5][1]) & set(sel) for x in specs):
                    continue
                sel = sorted(set(sel))
                if not multi:
                    sel = sel[:1]
                ok = True
                for i in sel:
                    for q in ops[i].parents:
                        j = ops.index(q)
                        if q.state() != S.COMPLETED and j not in sel:
                            ok = False
                if not ok:
                    continue
            specs.append((pi, sel, c, r, pool, cross))
        if k["huge"]:
            specs = specs[:1]          # keep every sum below 2^31 units
        # S phase: build the Assignment objects (this already moves operators to ASSIGNED)
        asg, asg_json, raised = [], [], None
        for (pi, sel, c, r, pool, cross) in specs:
            p, ops = pipes[pi]
            ru = r * k["U"]
            refs = [[pi + 1, i + 1] for i in sel] + ([[cross[0] + 1, i + 1] for i in cross[1]] if cross else [])
            objs = [ops[i] for i in sel] + ([pipes[cross[0]][1][i] for i in cross[1]] if cross else [])
            ram_u, ram_r = to_units(float(r), k["U"])          # as the executor sees it (a float), projected like every observed figure
            asg_json.append({"ops": refs, "cpu": c, "ram": ram_u, "ramr": ram_r if abs(ram_r) > 1 else 0, "pool": pool + 1})
            try:
                # the optional flags of an Assignment change nothing in what the executor checks or does
                flags = {} if rng.random() < 0.8 else {"force_run": rng.random() < 0.7, "is_resume": rng.random() < 0.4}
                asg.append(Assignment(objs, c, float(r), p.priority, pool, p.pipeline_id, **flags))
            except Exception as e:  # noqa: BLE001 - any exception is a refusal
                raised = f"{type(e).__name__}: {str(e)[:80]}"
                break
        sus_json = [{"cid": tr.cids.get(s.container_id), "pool": s.pool_id + 1} for s in sus]
        tr.round(sus_json, asg_json, raised)
        if raised:
            break
        try:
            res = ex.run_one_tick(sus, asg)
        except BaseException as e:  # noqa: BLE001 - StopIteration, AttributeError, AssertionError ... all are refusals
            # a caller may catch the refusal and go on.  With one pool (or a pool number that does not exist) no pool has run before the
            # refusal, so no result is lost with the exception; the trace then continues from what the refused call left behind
            # (only refusals of the verification phase: an exception out of a container's tick leaves that container unusable)
            verification = any(m in str(e) for m in ("Overallocated", "no such pool", "cannot be suspended", "Assignment must have"))
            go_on = (npools == 1 or "no such pool" in str(e)) and isinstance(e, AssertionError) and verification and rng.random() < (0.9 if reject_mode else 0.5)
            tr.exec_raised(e, after=go_on)
            if not go_on:
                break
            continue
        tr.exec_ok(res)
    return tr.end()


def _chunk(args):
    seeds, tid0, mode = args
    common.import_repo()
    return [run_one(sd, tid0 + i, mode) for i, sd in enumerate(seeds)]


def gen_traces(n: int, seed: int, mix=(("valid", 0.35), ("mixed", 0.25), ("pressure", 0.2), ("susp", 0.2)), procs: int | None = None):
    """n traces, deterministic in (n, seed, mix)."""
    import multiprocessing as mp
    rng = random.Random(seed)
    jobs = []
    tid = 0
    for mode, frac in mix:
        m = max(1, round(n * frac)) if frac > 0 else 0
        seeds = [rng.randrange(2**31) for _ in range(m)]
        step = max(1, (m + 31) // 32)
        for i in range(0, m, step):
            jobs.append((seeds[i:i + step], tid + i, mode))
        tid += m
    procs = procs or min(common.NCPU, max(1, len(jobs)))
    if procs == 1:
        out = [_chunk(j) for j in jobs]
    else:
        with common.pool(procs) as pool:
            out = pool.map(_chunk, jobs)
    return [tr for chunk in out for tr in chunk]
