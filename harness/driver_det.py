"""C07 driver: the same simulation run several times - twice in one process after other simulations (dirty
process-global counters and registries) and in fresh interpreters under different PYTHONHASHSEED values - and the
same workload parameters under different scheduler/executor settings.  Each run is reduced to the canonical
behaviour (ids renumbered by first appearance) and TraceEq.tla compares them."""
from __future__ import annotations

import json
import os
import random
import subprocess
import sys

from . import common, simrec
from .driver_sim import TRIPLES


def canonical(events):
    out = []
    for e in events:
        if e["ev"] == "arrive":
            out.append(["arrive", e["t"], e["p"], e["wl"]["prio"], e["wl"]["pid"],
                        [[o["par"], [[s["law"], s["bnum"] % 1000003, s["read"], s["fixed"]] for s in o["segs"]]] for o in e["wl"]["ops"]]])
        elif e["ev"] == "round":
            out.append(["round", e["t"], [[s["cid"], s["pool"]] for s in e["sus"]],
                        [[a["ops"], a["cpu"], a["ram"], a["pool"], a["prio"]] for a in e["asg"]]])
        elif e["ev"] == "exec":
            out.append(["exec", e["t"], [[r["cid"], r["err"], r["pool"], r["ops"]] for r in e["obs"]["results"]]])
        elif e["ev"] == "raise":
            out.append(["raise", e["t"], e["exc"]])
        elif e["ev"] == "end":
            out.append(["end", e["t"], json.dumps(e["stats"], sort_keys=True)])
    return out


def arrivals_only(canon):
    return [x for x in canon if x[0] == "arrive"]


def one_run(params, tid=0):
    events, stats, exc = simrec.record_run(params, tid=tid, mode="obs", U=1000, sparse=True, meta={"d": "-"})
    return canonical(events)


def gen_params(rng):
    policy = rng.choice(["naive", "priority", "priority-pool", "overbook"])
    tps = rng.choice([1, 2, 10])
    ticks = rng.choice([60, 150, 300])
    ip, qp, bp = rng.choice(TRIPLES)
    return {"duration": ticks / tps + 1e-9, "ticks_per_second": tps, "waiting_seconds_mean": rng.choice([3, 8, 20]) / tps,
            "num_pipelines": rng.choice([1, 2, 4]), "num_operators": rng.choice([1, 3, 5]), "interactive_prob": ip, "query_prob": qp, "batch_prob": bp,
            "cpu_io_ratio": rng.choice([0.1, 0.5, 0.9]), "scheduler_algo": policy, "num_pools": 2 if policy == "priority-pool" else rng.choice([1, 2]),
            "cpus_per_pool": rng.choice([4, 16, 64]), "ram_gb_per_pool": rng.choice([64, 256]),
            "multi_operator_containers": True if policy == "priority-pool" else rng.random() < 0.5,
            "allow_memory_overcommit": policy == "overbook", "random_seed": rng.randrange(10**6)}


def scenario_run(spec):
    from . import driver_sched
    return canonical(driver_sched.run_scenario(spec["seed"], 0, spec["policy"], spec["flavour"], mode="obs", counter=spec.get("counter")))


def child_main():
    params = json.loads(sys.argv[1])
    common.import_repo()
    out = scenario_run(params) if params.get("kind") == "scenario" else one_run(params)
    sys.stdout.write("@@" + json.dumps(out) + "\n")


def scenario_case(seed, tid):
    """A scripted contention scenario (several preemptions in one round, suspensions ending together) under four hash seeds."""
    common.import_repo()
    rng = random.Random(seed)
    spec = {"kind": "scenario", "seed": seed, "policy": rng.choice(["priority", "priority", "overbook", "priority-pool", "naive"]),
            "flavour": rng.choice(["preempt", "herd", "herd", "mixed", "branchy", "branchy", "twins"])}
    one_run(gen_params(random.Random(seed + 1)))
    # ... and at different points of a process's life: the process-wide container counter stands just below 10, 100, 1000 or anywhere else
    # (ids are renumbered by first appearance before the runs are compared, so only behaviour that DEPENDS on the counter shows)
    c7 = random.Random(seed ^ 0xC07)
    at = lambda: c7.choice([1, 2, 5, 7, 8, 9, 9, 10, 95, 97, 98, 99, 99, 100, 996, 998, 999, 9998, c7.randrange(1, 20000)])
    runs = [scenario_run(spec), scenario_run(dict(spec, counter=at())), scenario_run(dict(spec, counter=at())), fresh(spec, 0),
            fresh(dict(spec, counter=at()), 1), fresh(spec, 2), fresh(dict(spec, counter=at()), rng.randrange(3, 10**6))]
    enc = lambda x: json.dumps(x, sort_keys=True)
    arr = [enc(ev) for ev in arrivals_only(runs[0])]
    other = dict(spec, seed=seed + 1)
    return {"tid": tid, "seed": seed, "params": spec, "runs": [[enc(ev) for ev in r] for r in runs], "arr": arr, "arr_other": arr,
            "arr_seed2": [enc(ev) for ev in arrivals_only(scenario_run(other))]}


def fresh(params, hashseed):
    env = dict(os.environ)
    env["PYTHONHASHSEED"] = str(hashseed)
    env["VERIF_REPO"] = str(common.REPO)
    p = subprocess.run([sys.executable, "-c", "import sys; sys.path.insert(0, %r); from harness.driver_det import child_main; child_main()" % str(common.VERIF),
                        json.dumps(params)], env=env, capture_output=True, text=True, timeout=600, cwd=str(common.VERIF))
    for ln in p.stdout.splitlines():
        if ln.startswith("@@"):
            return json.loads(ln[2:])
    raise common.MachineryError(f"fresh interpreter run failed: {p.stderr[-400:]}")


def case(seed, tid):
    common.import_repo()
    rng = random.Random(seed)
    params = gen_params(rng)
    if rng.random() < 0.12:
        params["random_seed"] = 0
    # dirty the process first: another simulation advances Container.next_container_num, registers schedulers, ...
    one_run(gen_params(random.Random(seed + 1)))
    runs = [one_run(params), one_run(params), fresh(params, 0), fresh(params, rng.choice([1, 12345, 987654321]))]
    # same workload parameters, other scheduler / executor settings: the arrivals must be the same
    other = dict(params)
    other["scheduler_algo"] = "naive" if params["scheduler_algo"] != "naive" else "priority"
    other["num_pools"] = 3 if other["scheduler_algo"] == "naive" else 1
    other["cpus_per_pool"], other["ram_gb_per_pool"] = 8, 32
    other["multi_operator_containers"] = not params["multi_operator_containers"]
    other["allow_memory_overcommit"] = False
    # ... and a parameter set is a mapping: the order of its keys means nothing
    keys = list(other)
    random.Random(seed + 2).shuffle(keys)
    other = {k: other[k] for k in keys}
    arr_other = arrivals_only(one_run(other))
    seed2 = dict(params)
    seed2["random_seed"] = params["random_seed"] + 1
    if params["random_seed"] == 0:
        # seed 0 is a seed like any other: in particular not a synonym of the default seed
        from eudoxia.simulator import parse_args_with_defaults
        seed2["random_seed"] = parse_args_with_defaults({})["random_seed"]
    arr_seed2 = arrivals_only(one_run(seed2))
    enc = lambda x: json.dumps(x, sort_keys=True)
    # behaviours are handed to the monitor line by line as opaque strings: equality is what C07 is about
    return {"tid": tid, "seed": seed, "params": params, "runs": [[enc(ev) for ev in r] for r in runs],
            "arr": [enc(ev) for ev in arrivals_only(runs[0])], "arr_other": [enc(ev) for ev in arr_other], "arr_seed2": [enc(ev) for ev in arr_seed2]}


def _one(args):
    seed, tid = args
    return [case(seed, tid)] if tid % 2 == 0 else [scenario_case(seed, tid)]


def gen_lines(n, seed):
    import multiprocessing as mp
    rng = random.Random(seed)
    jobs = [(rng.randrange(2**31), i) for i in range(n)]
    with common.pool(common.NCPU) as pool:
        return pool.map(_one, jobs)
