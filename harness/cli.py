"""Entry point: ./check Cxx --tier quick|thorough [--replay path]."""
from __future__ import annotations

import argparse
import importlib
import os
import sys
import traceback

from .common import MachineryError


def main(argv=None) -> int:
    ap = argparse.ArgumentParser(prog="check")
    ap.add_argument("prop")
    ap.add_argument("--tier", default=os.environ.get("VERIF_TIER", "quick"), choices=["quick", "thorough"])
    ap.add_argument("--replay", default=None)
    ap.add_argument("--selftest", action="store_true")
    args = ap.parse_args(argv)
    prop = args.prop.upper()
    if prop == "SELFTEST":
        from . import selftest
        return selftest.run()
    try:
        mod = importlib.import_module(f"harness.props.{prop}")
    except ModuleNotFoundError as e:
        if e.name and e.name.endswith(prop):
            print(f"no check registered for {prop}", file=sys.stderr)
            return 2
        raise
    try:
        if args.replay:
            return int(mod.replay(args.replay))
        return int(mod.run(args.tier))
    except MachineryError as e:
        print(f"MACHINERY-FAILURE property={prop}: {e}", file=sys.stderr)
        return 2
    except Exception as e:  # noqa: BLE001
        text = "".join(traceback.format_exception(e))          # includes the remote traceback of a worker process (its __cause__)
        traceback.print_exc()
        # a worker process hands its traceback over as text in __cause__: that one ends where the exception was raised
        cause = getattr(e, "__cause__", None)
        where = innermost_file(str(cause)) if cause is not None and "Traceback" in str(cause) else innermost_file("".join(traceback.format_tb(e.__traceback__)))
        from . import common
        if where and where.startswith(str(common.REPO) + os.sep) and not args.replay:
            # the code under test raised while a driver was using it the way the drivers use the unchanged tree (which does not raise):
            # the behaviour the property describes did not take place.  A verdict, not a failure of the machinery.
            return unexpected_raise(prop, args.tier, e, text, where)
        print(f"MACHINERY-FAILURE property={prop}: unexpected exception in the harness", file=sys.stderr)
        return 2


def innermost_file(text: str):
    """The deepest frame that belongs either to the code under test or to the harness (frames of libraries below them do not count)."""
    import re
    from . import common
    files = [f for f in re.findall(r'File "([^"]+)", line \d+', text) if f.startswith(str(common.REPO) + os.sep) or f.startswith(str(common.VERIF) + os.sep)]
    return files[-1] if files else None


def unexpected_raise(prop, tier, exc, text, where) -> int:
    from .common import Report
    rep = Report(prop, tier)
    rep.assumptions = ["the drivers use the code under test only in ways the unchanged tree accepts without raising"]
    rep.rule = "a driver of this check was stopped by an exception raised inside the code under test"
    last = [ln for ln in text.strip().splitlines() if ln.strip()][-1][:300]
    rep.violation(f"{prop}.UnexpectedRaise", {"exception": last, "raised_in": where, "traceback_tail": text[-1500:]},
                  replay={"kind": "unexpected-raise", "traceback": text[-4000:]}, sig={"clause": f"{prop}.UnexpectedRaise", "where": os.path.basename(where)})
    return rep.finish()


if __name__ == "__main__":
    sys.stdout.reconfigure(line_buffering=True)
    sys.exit(main())
