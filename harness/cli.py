"""Entry point: ./check Cxx --tier quick|thorough [--replay path]."""
from __future__ import annotations

import argparse
import importlib
import os
import sys
import traceback

from .common import MachineryError


def main(argv=None) -> int:
    ap = argparse.ArgumentParser(prog="check")
    ap.add_argument("prop")
    ap.add_argument("--tier", default=os.environ.get("VERIF_TIER", "quick"), choices=["quick", "thorough"])
    ap.add_argument("--replay", default=None)
    ap.add_argument("--selftest", action="store_true")
    args = ap.parse_args(argv)
    prop = args.prop.upper()
    if prop == "SELFTEST":
        from . import selftest
        return selftest.run()
    try:
        mod = importlib.import_module(f"harness.props.{prop}")
    except ModuleNotFoundError as e:
        if e.name and e.name.endswith(prop):
            print(f"no check registered for {prop}", file=sys.stderr)
            return 2
        raise
    try:
        if args.replay:
            return int(mod.replay(args.replay))
        return int(mod.run(args.tier))
    except MachineryError as e:
        print(f"MACHINERY-FAILURE property={prop}: {e}", file=sys.stderr)
        return 2
    except Exception:
        traceback.print_exc()
        print(f"MACHINERY-FAILURE property={prop}: unexpected exception in the harness", file=sys.stderr)
        return 2


if __name__ == "__main__":
    sys.stdout.reconfigure(line_buffering=True)
    sys.exit(main())
