"""Parser for TLA+ values as TLC prints them (PrintT tuples, -dump states, -simulate files).

Records  [a |-> 1, b |-> "x"]      -> dict
Tuples   <<1, 2>>                  -> list
Sets     {1, 2}                    -> frozenset-like sorted list wrapped in TlaSet
Functions (1 :> "a" @@ 2 :> "b")   -> dict (int/str keys)
Strings, integers, TRUE/FALSE, model values (bare identifiers) -> str.
No logic: this only turns text into Python data.
"""
from __future__ import annotations


class TlaSet(list):
    """A TLA+ set; kept as a list in TLC's print order."""


class ParseError(ValueError):
    pass


class _P:
    def __init__(self, s: str):
        self.s = s
        self.i = 0

    def ws(self):
        s, n = self.s, len(self.s)
        while self.i < n and s[self.i] in " \t\r\n":
            self.i += 1

    def peek(self, k=1):
        return self.s[self.i:self.i + k]

    def expect(self, tok):
        self.ws()
        if not self.s.startswith(tok, self.i):
            raise ParseError(f"expected {tok!r} at {self.i}: {self.s[self.i:self.i+40]!r}")
        self.i += len(tok)

    def value(self):
        self.ws()
        s = self.s
        if self.i >= len(s):
            raise ParseError("unexpected end")
        c = s[self.i]
        if s.startswith("<<", self.i):
            self.i += 2
            return self.seq(">>", list)
        if c == "{":
            self.i += 1
            return self.seq("}", TlaSet)
        if c == "[":
            self.i += 1
            return self.record()
        if c == "(":
            self.i += 1
            return self.function()
        if c == '"':
            return self.string()
        if c == "-" or c.isdigit():
            j = self.i + 1
            while j < len(s) and s[j].isdigit():
                j += 1
            v = int(s[self.i:j])
            self.i = j
            # a..b interval printed by TLC
            if s.startswith("..", self.i):
                self.i += 2
                hi = self.value()
                return TlaSet(range(v, hi + 1))
            return v
        if c.isalpha() or c == "_":
            j = self.i
            while j < len(s) and (s[j].isalnum() or s[j] in "_!"):
                j += 1
            w = s[self.i:j]
            self.i = j
            if w == "TRUE":
                return True
            if w == "FALSE":
                return False
            return w
        raise ParseError(f"unexpected {c!r} at {self.i}: {s[self.i:self.i+40]!r}")

    def seq(self, close, ctor):
        out = ctor()
        self.ws()
        if self.s.startswith(close, self.i):
            self.i += len(close)
            return out
        while True:
            out.append(self.value())
            self.ws()
            if self.s.startswith(",", self.i):
                self.i += 1
                continue
            self.expect(close)
            return out

    def record(self):
        out = {}
        self.ws()
        if self.peek() == "]":
            self.i += 1
            return out
        while True:
            self.ws()
            j = self.i
            while j < len(self.s) and (self.s[j].isalnum() or self.s[j] == "_"):
                j += 1
            key = self.s[self.i:j]
            self.i = j
            self.expect("|->")
            out[key] = self.value()
            self.ws()
            if self.peek() == ",":
                self.i += 1
                continue
            self.expect("]")
            return out

    def function(self):
        out = {}
        while True:
            k = self.value()
            self.expect(":>")
            out[k] = self.value()
            self.ws()
            if self.s.startswith("@@", self.i):
                self.i += 2
                continue
            self.expect(")")
            return out

    def string(self):
        assert self.s[self.i] == '"'
        j = self.i + 1
        buf = []
        s = self.s
        while s[j] != '"':
            if s[j] == "\\":
                j += 1
                buf.append({"n": "\n", "t": "\t"}.get(s[j], s[j]))
            else:
                buf.append(s[j])
            j += 1
        self.i = j + 1
        return "".join(buf)


def parse(text: str):
    p = _P(text)
    v = p.value()
    p.ws()
    if p.i != len(text):
        raise ParseError(f"trailing text at {p.i}: {text[p.i:p.i+40]!r}")
    return v


def parse_prefix(text: str, start: int = 0):
    """Parse one value starting at `start`; returns (value, end_index)."""
    p = _P(text)
    p.i = start
    v = p.value()
    return v, p.i


def find_tuples(text: str, tag: str):
    """All top-level tuples <<"tag", ...>> in a TLC output (bracket matching, may span lines)."""
    import re
    pat = re.compile(r'<<\s*"' + re.escape(tag) + '"')
    out = []
    i = 0
    while True:
        m = pat.search(text, i)
        if not m:
            return out
        try:
            v, end = parse_prefix(text, m.start())
            out.append(v)
            i = end
        except (ParseError, IndexError):
            i = m.end()


def parse_state_conj(text: str):
    """Parse a TLC state printed as  /\\ v1 = val1 \\n /\\ v2 = val2 ... into a dict."""
    out = {}
    p = _P(text)
    while True:
        p.ws()
        if p.i >= len(text):
            return out
        if text.startswith("/\\", p.i):
            p.i += 2
        p.ws()
        j = p.i
        while j < len(text) and (text[j].isalnum() or text[j] == "_"):
            j += 1
        name = text[p.i:j]
        if not name:
            raise ParseError(f"state variable expected at {p.i}: {text[p.i:p.i+40]!r}")
        p.i = j
        p.expect("=")
        out[name] = p.value()
