"""Checks of the executor family (C01-C04, C09-C11 and the executor half of C05):

  model side   : MC_Exec_*.cfg - Eudoxia.tla under the universal scheduler, all invariants
  binding side : driver B traces of the real Executor validated by TraceExec.tla

A clause is attributed to the property whose statement licenses it (DESIGN §4.2); `check Cxx`
exits 1 iff a clause of Cxx fired (or a model-side invariant of Cxx fails).
"""
from __future__ import annotations

import json
import re
from collections import Counter

from . import common, driver_exec
from .common import Report, MachineryError, SPEC

# clause prefix -> property
def owner_of(clause: str, detail=None) -> str:
    m = re.match(r"(?:conf\.)?(C\d\d)\.", clause)
    if m:
        return m.group(1)
    if clause.startswith("conf.raise"):
        # the code refused a command the specification accepts: attribute by what it complained about
        text = json.dumps(detail)
        if "StopIteration" in text or "Dependencies not satisfied" in text or "generator" in text:
            return "C05"
        if "Overallocated" in text:
            return "C03"
        if "suspend" in text.lower() or "NoneType" in text:
            return "C10"
        if "Cannot transition" in text:
            return "C02"
        return "C09"
    return "C09"


MODEL = {
    # property -> (quick configs, extra thorough configs).  goon*: a caller that goes on after a refusal; extkill*: Container.kill from outside
    "C01": (["diamond", "join_single"], ["chain", "fork_oc", "two_long", "batch", "cross"]),
    "C02": (["chain", "join_single", "goon_s"], ["diamond", "fork_oc", "two_long", "batch", "cross", "extkill1"]),
    "C03": (["two_long", "batch", "goon"], ["chain", "fork_oc", "diamond", "join_single", "cross", "deep", "extkill1"]),
    "C04": (["fork_oc", "press", "goon_oc"], ["chain", "two_long", "diamond", "batch", "extkill1"]),
    "C05": (["join_single", "diamond"], ["chain", "fork_oc", "cross"]),
    "C09": (["fork_oc", "join_single", "goon", "extkill1"], ["chain", "two_long", "diamond", "batch", "cross", "deep5", "extkill", "goon_s"]),
    "C10": (["two_long", "chain", "goon"], ["fork_oc", "diamond", "batch", "cross", "deep5", "extkill"]),
    "C11": (["press", "fork_oc", "goon_oc"], ["chain", "two_long"]),
}
MIX = {
    "C01": (("valid", 0.25), ("mixed", 0.4), ("susp", 0.15), ("orphan", 0.2)),
    "C02": (("valid", 0.3), ("mixed", 0.3), ("susp", 0.2), ("orphan", 0.1), ("reject", 0.1)),
    "C03": (("valid", 0.3), ("mixed", 0.2), ("pressure", 0.1), ("susp", 0.25), ("reject", 0.15)),
    "C04": (("valid", 0.2), ("mixed", 0.1), ("pressure", 0.3), ("susp", 0.15), ("swarm", 0.1), ("reject", 0.15)),
    "C05": (("valid", 0.6), ("susp", 0.3), ("pressure", 0.1)),
    "C09": (("valid", 0.3), ("mixed", 0.3), ("pressure", 0.15), ("susp", 0.1), ("reject", 0.15)),
    "C10": (("valid", 0.2), ("mixed", 0.2), ("susp", 0.45), ("reject", 0.15)),
    "C11": (("pressure", 0.6), ("susp", 0.1), ("swarm", 0.2), ("reject", 0.1)),
}
NTRACES = {"quick": 900, "thorough": 20000}
SEED_OFFSET = {p: i * 7919 for i, p in enumerate(sorted(MIX))}

# situations a property is about: (counter, minimum in the quick tier)
NEEDS = {
    "C01": [("rejections", 20), ("multiop_assignments", 100)],
    "C02": [("rejections", 20), ("failures", 100), ("suspends", 30), ("went_on_after_refusal", 40)],
    "C03": [("suspensions_finished", 30), ("rejections", 20), ("results", 300), ("went_on_after_refusal", 40)],
    "C04": [("poolkill_ticks", 50), ("own_kills", 100), ("suspends", 20), ("went_on_after_refusal", 40)],
    "C05": [("results", 300), ("own_kills", 50)],
    "C09": [("results", 300), ("failures", 100), ("suspensions_finished", 10), ("rejections", 20), ("went_on_after_refusal", 40)],
    "C10": [("suspends", 100), ("suspends_1tick", 10), ("suspensions_finished", 80), ("rejections", 10), ("went_on_after_refusal", 40)],
    "C11": [("poolkill_ticks", 200), ("poolkill_multi", 100), ("poolkill_partial", 100)],
}


def run_models(rep: Report, prop: str, tier: str):
    quick, extra = MODEL[prop]
    names = quick + (extra if tier == "thorough" else [])
    for name in names:
        r = common.run_tlc("MC_Exec", SPEC / f"MC_Exec_{name}.cfg", timeout=3000)
        rep.add_model(f"MC_Exec_{name}", r)
        for v in r.violated:
            # the model does not depend on /repo: a violation here is a broken specification
            raise MachineryError(f"model MC_Exec_{name} violates {v} - the specification itself is inconsistent:\n"
                                 + "\n".join(r.out.splitlines()[-40:]))
    rep.samples.append({"model_config": f"MC_Exec_{names[0]}.cfg", "spec": "Eudoxia.tla (universal scheduler)"})
    if tier == "thorough":
        deep_models(rep, prop)


SWITCH_EXPECT = {"D1": "C05_OnlyDocumentedRejections", "D2": "C10_SuspLeftPositive", "D3": "C04_ReportedIsSum", "D4": "C09_UnknownPoolRejected"}


def deep_models(rep, prop):
    """Thorough tier: (a) with a deviation switch off TLC must FIND the corresponding defect of the pinned tree (the model can express it);
    (b) random simulation far beyond the exhaustive depth."""
    for d, want in SWITCH_EXPECT.items():
        r = common.run_tlc("MC_Exec", SPEC / f"MC_Exec_{d}.cfg", timeout=1200)
        if not any(want in v for v in r.violated):
            raise MachineryError(f"deviation switch {d}: TLC did not find {want} (found {r.violated or r.error})")
        rep.extra.setdefault("defect_switches_found", []).append(f"{d}:{want}")
    quick, _ = MODEL[prop]
    src = (SPEC / f"MC_Exec_{quick[0]}.cfg").read_text().replace("MaxTick = 3", "MaxTick = 12").replace("MaxTick = 4", "MaxTick = 12").replace("Admissible = FALSE", "Admissible = TRUE")
    f = common.scratch() / "MC_Exec_sim.cfg"
    f.write_text(src)
    r = common.run_tlc("MC_Exec", f, timeout=1500, workers=common.NCPU, extra=["-simulate", "num=3000", "-depth", "30"])
    if r.violated or (r.error and "timeout" not in r.error):
        raise MachineryError(f"simulation of MC_Exec_{quick[0]} to depth 30: {r.violated or r.error}")
    rep.extra["simulation"] = {"config": quick[0], "depth": 30, "behaviours_per_worker": 3000, "states_generated": r.generated}


def validate(traces, rep: Report, prop: str, *, nshards=None):
    files = common.write_shards(traces, nshards or common.NCPU)
    mon = common.run_monitor("TraceExec", "TraceExec.cfg", files)
    drift = [n for n in mon.notes]
    if drift:
        print(f"DRIFT: {len(drift)} tick(s) where the real code orders containers/results differently from the model (no property fixes that order; informational)")
    if "PRECOND" in json.dumps(mon.notes):
        raise MachineryError("a driver produced inputs on a float boundary for a stepping trace")
    by_tid = {tr[0]["tid"]: tr for tr in traces}
    owners = Counter()
    for v in mon.viols:
        tid, t, clause, detail = v[0], v[1], v[2], v[3] if len(v) > 3 else None
        own = owner_of(clause, detail)
        owners[own] += 1
        # a container that never finishes its suspension also never reaches its one outcome (C09)
        also = {"conf.C10.lists": {"C09"}, "C10.SuspLeftPositive": {"C09"},
                # "leaving earlier operators completed and the current and later ones failed" is a sentence of C05 as well
                "C09.ResultShape": {"C05"},
                # SUSPENDING -> PENDING belongs to the end of the suspension only (lifecycle), and until then the container is live
                "C10.NoEarlyRelease": {"C02"}}.get(clause, set())
        if clause.startswith("conf.raise") and isinstance(detail, list) and isinstance(detail[-1], dict) and detail[-1].get("sus"):
            # the refused batch carried a Suspend that the specification accepts ("a container can be suspended ... right after one of its
            # operators finished while another remains"): whatever the exception complained about, C10 is concerned too
            also = also | {"C10"}
        if own != prop and prop not in also:
            continue
        tr = by_tid.get(tid, [])
        meta = (tr[0].get("meta") if tr else {}) or {}
        rep.violation(clause, {"tid": tid, "tick": t, "detail": detail, "meta": meta},
                      replay={"kind": "driverB", "seed": meta.get("seed"), "mode": meta.get("mode"), "trace": tr},
                      sig={"clause": clause})
    return mon, owners


def run(prop: str, tier: str, extra=None) -> int:
    rep = Report(prop, tier)
    rep.assumptions = [
        "TLC and the CommunityModules Json/IOUtils are trusted",
        "harness/rec.py (projection of the real objects) is logic-free and trusted as the eyes",
        "exhaustive results hold for the small constants of the MC_Exec_*.cfg files; beyond them the evidence is the validated traces",
        "inputs of stepping traces are on a decimal grid and off tick boundaries; exact-limit (band) cases are resolved by trying both admissible outcomes",
    ]
    run_models(rep, prop, tier)
    if extra is not None:
        extra(rep, tier)
    # spec -> code: behaviours chosen by TLC stepped through the real Executor
    from . import replay_exec
    rep.traces += replay_exec.run(rep, prop, tier)
    n = NTRACES[tier]
    traces = driver_exec.gen_traces(n, common.seed() + SEED_OFFSET[prop], mix=MIX[prop])
    if prop in ("C03", "C10", "C04"):
        # long simulations (13 000 ticks, write-outs in progress most of the time) through the real priority policy, observed sparsely:
        # tick-count-dependent behaviour of the pools only shows in runs of this length
        traces += long_runs(4 if tier == "quick" else 48, common.seed() + SEED_OFFSET[prop])
    if prop in ("C03", "C10"):
        # whole simulations under the priority policy (suspensions; float RAM sizes; the simulator's own per-second memory report)
        from . import driver_sched
        sim = driver_sched.gen_traces(120 if tier == "quick" else 3000, common.seed() + 303 + int(prop[1:]), policies=["priority"],
                                      flavours=(("preempt", 0.5), ("herd", 0.4), ("mixed", 0.1)))
        for tr in sim:
            for e in tr:
                e["tid"] += 2 * 10**7
        traces += sim
    if prop == "C01":
        # whole simulations with one operator per container: DAGs whose branches run side by side, and a merge of hundreds of operators
        from . import driver_sched
        sim = driver_sched.gen_traces(64 if tier == "quick" else 1600, common.seed() + 101, policies=["overbook", "priority", "naive"],
                                      flavours=(("branchy", 0.6), ("mixed", 0.4)))
        # (under the priority policy: a tenth of a pool per container keeps a few dozen containers alive at once; overbook would start a
        #  thousand, and the monitor's kill-order and accounting clauses are quadratic in the containers of a pool)
        sim += driver_sched.gen_traces(48 if tier == "quick" else 1200, common.seed() + 102, policies=["priority"], flavours=(("wide", 1.0),))
        for tr in sim:
            for e in tr:
                e["tid"] += 2 * 10**7
        traces += sim
    if prop == "C04":
        # whole simulations: random VALID configurations with the real generator (tick rates up to 100000, where a container's memory moves
        # by 0.2 MB a tick; sub-GB pools; every policy) observed sparsely, and scripted contention under the priority policy with and
        # without overcommit (suspensions while the pool reports its memory)
        from . import driver_sim, driver_sched
        sim = driver_sim.gen_traces(120 if tier == "quick" else 3000, common.seed() + 404, frac_uncontended=0.0)
        sim += driver_sched.gen_traces(96 if tier == "quick" else 2400, common.seed() + 405, policies=["priority", "overbook"],
                                       flavours=(("preempt", 0.4), ("herd", 0.3), ("mixed", 0.3)))
        for tr in sim:
            for e in tr:
                e["tid"] += 2 * 10**7
        traces += sim
    if prop == "C02":
        # whole simulations (every shipped policy, scripted DAG workloads whose pipeline objects the caller keeps): the operator states
        # during the run and as the caller finds them after run_simulator has returned
        from . import driver_sched
        sim = driver_sched.gen_traces(96 if tier == "quick" else 2400, common.seed() + 202, flavours=(("mixed", 0.6), ("tiny", 0.2), ("branchy", 0.2)))
        for tr in sim:
            for e in tr:
                e["tid"] += 2 * 10**7
        traces += sim
    mon, owners = validate(traces, rep, prop)
    rep.traces += mon.traces
    rep.evaluations += mon.lines
    rep.extra["situations"] = mon.counters
    rep.extra["clauses_fired_by_owner"] = dict(owners)
    rep.extra["trace_lines"] = mon.lines
    # distinct non-trivial = traces that reached at least one situation the property is about
    rep.nontrivial = count_nontrivial(traces, prop)
    rep.rule = ("driver B (seeded random commander; modes valid / mixed / pressure / susp / swarm / orphan / reject - the last one goes on after "
                "refusals -, kills from outside, tick rates 1-10 and 10 240 / 81 920) against the real Executor, plus - for C01-C04 and C10 - "
                "recorded run_simulator runs of the shipped policies; every event validated by TraceExec.tla; a trace is non-trivial for this "
                "property if it contains a result, a rejection or a suspension; distinct = distinct (config, workload, command history) by "
                "construction of the seeds")
    for tr in traces[:2]:
        rep.samples.append({"trace_head": [slim(e) for e in tr[:4]]})
    lack = [(k, mon.counters.get(k, 0), need) for k, need in NEEDS[prop] if mon.counters.get(k, 0) < (need if tier == "quick" else need * 5)]
    if lack and not rep.violations and not any(owners.values()):
        raise MachineryError(f"vacuity: the run did not reach the situations {prop} is about: {lack}")
    return rep.finish()


def _long(args):
    from . import driver_sched
    common.import_repo()
    return driver_sched.long_run(*args)


def long_runs(n, seed):
    import multiprocessing as mp
    with common.pool(min(common.NCPU, n)) as pool:
        return pool.map(_long, [(seed + i, 10**7 + i) for i in range(n)])


def slim(e):
    if e["ev"] == "hdr":
        return {"ev": "hdr", "cfg": {k: e["cfg"][k] for k in ("np", "cpucap", "ramcap", "oc", "multi", "tps", "U", "mode")},
                "npipelines": len(e["wl"]), "meta": e.get("meta")}
    if e["ev"] == "round":
        return {"ev": "round", "t": e["t"], "sus": e["sus"], "asg": e["asg"], "raised": e["raised"]}
    if e["ev"] == "exec":
        return {"ev": "exec", "t": e["t"], "results": e["obs"]["results"], "ost": e["obs"]["ost"]}
    return e


def count_nontrivial(traces, prop):
    n = 0
    for tr in traces:
        ok = False
        for e in tr:
            if e["ev"] == "raise" or (e["ev"] == "round" and (e["raised"] or e["sus"])) or (e["ev"] == "exec" and e["obs"]["results"]):
                ok = True
                break
        n += ok
    return n


def replay(prop: str, path: str) -> int:
    """Re-run the recorded scenario against the code as it is now and validate it again."""
    payload = json.loads(open(path).read())
    rp = payload.get("replay") or {}
    rep = Report(prop, "quick")
    kind = rp.get("kind")
    common.import_repo()
    if kind == "driverB" and rp.get("seed") is not None:
        if (rp.get("mode") or "") == "long" or str((rp.get("trace") or [{}])[0].get("meta", {}).get("driver", "")).endswith("long"):
            from . import driver_sched
            tr = driver_sched.long_run(rp["seed"], 0)
        else:
            tr = driver_exec.run_one(rp["seed"], 0, rp["mode"])
        mon, owners = validate([tr], rep, prop, nshards=1)
        print(f"replay: {len(mon.viols)} clause(s) fired, by owner {dict(owners)}")
        for v in mon.viols[:10]:
            print("  ", json.dumps(v)[:400])
    elif kind == "timing":
        from . import driver_timing
        from fractions import Fraction as F
        c = rp["case"]
        if c.get("kind") == "susp":
            files = common.write_shards([[driver_timing.susp_run(c["tps"], c["ram"], 0)]], 1, "rt")
            mon = common.run_monitor("TraceTiming", "TraceTiming.cfg", files)
            for v in mon.viols:
                print("  ", json.dumps(v)[:400])
                rep.violation(v[2], v[3])
            return 1 if rep.violations else 0
        line = c if "obs" not in c else None
        # the recorded case carries the inputs in the monitor's units: rebuild the container run from them
        case = {"tps": c["tps"], "cpus": F(c["c2"], 2), "ram": F(c["ram"], 1000),
                "ops": [[{"law": g["law"], "base": F(g["bnum"], g["bden"]), "read": F(g["read"], 1000), "fixed": None if g["fixed"] < 0 else F(g["fixed"], 1000)}
                         for g in o["segs"]] for o in c["ops"]]}
        if c.get("warm"):
            case["warm"] = c["warm"]
        files = common.write_shards([[driver_timing.run_case(case, 0)]], 1, "rt")
        mon = common.run_monitor("TraceTiming", "TraceTiming.cfg", files)
        for v in mon.viols:
            print("  ", json.dumps(v)[:400])
            rep.violation(v[2], v[3])
    elif kind == "tlc-behaviour":
        from . import replay_exec
        steps = [(a, st) for a, st in rp["behaviour"]]
        bad, n, how = replay_exec.replay_behaviour(steps, replay_exec.constants()[rp["config"]])
        print(f"replay of a TLC behaviour ({n} transitions, ended: {how}): {len(bad)} mismatch(es)")
        for clause, det in bad:
            print("  ", clause, json.dumps(det)[:300])
            rep.violation(clause, det)
    elif kind in ("lifecycle", "dag"):
        from . import lifecycle
        (lifecycle.replay_lifecycle if kind == "lifecycle" else lifecycle.check_dag_iteration)(rep)
        for v in rep.violations[:10]:
            print("  ", v["clause"], json.dumps(v["detail"])[:300])
    else:
        raise MachineryError(f"replay file of unknown kind {kind!r}")
    return 1 if rep.violations else 0
