"""Projection of the real objects onto the specification's variables, and trace recording.

Logic-free by intent: this module reads public attributes / methods of the real Executor,
ResourcePool, Container and Pipeline objects and writes them down in the units the TLA+
specification uses.  All judgement (tolerances, clauses, bands) is in the TLA+ monitors.

Units: memory is logged as an integer number of units (U units per GB) plus the residual in
millionths of a unit, so the monitor decides what "equal" means.
"""
from __future__ import annotations

from fractions import Fraction as F

LAW_NAMES = ["const", "log", "sqrt", "linear3", "linear7", "squared", "exp"]


def to_units(x, U):
    """(nearest integer number of units, residual in 1e-6 units) of a float/Fraction GB value."""
    v = F(x) * U
    n = round(v)
    r = round((v - n) * 10**6)
    return int(n), int(r)


def law_name(seg):
    from eudoxia.workload.pipeline import Segment
    for name, fn in Segment.SCALING_FUNCS.items():
        if fn == seg.scaling_func:
            return name
    return "callable"


class PipeIndex:
    """Numbering of pipelines and operators (1-based, insertion order) shared with the spec."""

    def __init__(self):
        self.pipes = []          # Pipeline objects
        self.ops = []            # list of list of Operator
        self.opref = {}          # id(op) -> (p, i)

    def add(self, pipeline):
        # insertion order of the DAG (node_ids order), NOT the iterator order: the spec's parent indices refer to it
        ops = [pipeline.values.node_lookup[i] for i in pipeline.values.node_ids]
        self.pipes.append(pipeline)
        self.ops.append(ops)
        p = len(self.pipes)
        for i, o in enumerate(ops):
            self.opref[id(o)] = (p, i + 1)
        return p

    def ref(self, op):
        return list(self.opref[id(op)])

    def wl_entry(self, p, U, exact=None):
        """The spec's description of pipeline p: parents and raw segment parameters in units.

        exact: optional dict id(segment) -> dict(read=Fraction GB, fixed=Fraction|None, base=Fraction s)
        when the driver knows the decimal it meant; otherwise the float's exact value is used."""
        pl = self.pipes[p - 1]
        ops = []
        for o in self.ops[p - 1]:
            segs = []
            for sg in o.get_segments():
                ex = (exact or {}).get(id(sg))
                read = ex["read"] if ex else F(sg.storage_read_gb)
                fixed = (ex["fixed"] if ex else (None if sg.memory_gb is None else F(sg.memory_gb)))
                base = ex["base"] if ex else F(sg.baseline_cpu_seconds)
                ru, rr = to_units(read, U)
                fu, fr = (-1, 0) if fixed is None else to_units(fixed, U)
                segs.append({"read": ru, "readr": rr, "fixed": fu, "fixedr": fr, "law": law_name(sg),
                             "bnum": base.numerator, "bden": base.denominator})
            # the parents the builder MEANT (recorded while building, when the builder did) - not what the objects say now: the list handed
            # to new_operator stays the caller's, and a caller may go on using it
            meant = getattr(pl, "_verif_par", None)
            ops.append({"par": list(meant[len(ops)]) if meant is not None else [self.opref[id(q)][1] for q in o.parents], "segs": segs})
        return {"prio": pl.priority.name[0], "pid": str(pl.pipeline_id), "ops": ops}

    def ost(self):
        return [[o.state().value for o in ops] for ops in self.ops]


class CidMap:
    """Spec container ids: creation order within the trace (the real ids come from a process-global counter)."""

    def __init__(self):
        self.m = {}

    @staticmethod
    def _key(real):
        s = str(real)
        digits = "".join(ch for ch in s if ch.isdigit())
        return (0, int(digits)) if digits else (1, s)

    def learn(self, reals):
        fresh = [r for r in reals if r not in self.m]
        # preserve discovery order for ids without a numeric part; numeric ids sort by creation counter
        seen = []
        for r in fresh:
            if r not in seen:
                seen.append(r)
        for r in sorted(seen, key=self._key):
            self.m[r] = len(self.m) + 1

    def get(self, real):
        return self.m.get(real, 0)


def project_pools(executor, idx: PipeIndex, cids: CidMap, U):
    pools = []
    for R in executor.pools:
        aram, aramr = to_units(R.avail_ram_pool, U)
        cons, consr = to_units(R.get_consumed_ram_gb(), U)
        act = []
        for c in R.active_containers:
            mem, memr = to_units(c.get_current_memory_usage(), U)
            ram, ramr = to_units(c.assignment.ram, U)
            act.append({"cid": cids.get(c.container_id), "idx": c._current_op_idx, "mem": mem, "memr": memr,
                        "can": bool(c.can_suspend_container()), "done": bool(c.is_completed()),
                        "cpu": c.assignment.cpu, "ram": ram, "ramr": ramr, "ticks": c.ticks_elapsed(),
                        "prio": c.priority.name[0], "ops": [idx.ref(o) for o in c.operators]})
        susp = []
        for c in R.suspending_containers:
            ram, ramr = to_units(c.assignment.ram, U)
            susp.append({"cid": cids.get(c.container_id), "sleft": c._suspend_ticks_left, "idx": c._current_op_idx,
                         "cpu": c.assignment.cpu, "ram": ram, "ramr": ramr,
                         "slen": c.suspend_ticks if c.suspend_ticks is not None else -1,
                         "ops": [idx.ref(o) for o in c.operators]})
        pools.append({"acpu": R.avail_cpu_pool, "aram": aram, "aramr": aramr, "cons": cons, "consr": consr,
                      "active": act, "suspending": susp,
                      "suspended": [cids.get(c.container_id) for c in R.suspended_containers],
                      "ncomp": R.num_completed})
    return pools


def all_container_ids(executor, results=()):
    out = []
    for R in executor.pools:
        for lst in (R.active_containers, R.suspending_containers, R.suspended_containers):
            out.extend(c.container_id for c in lst)
    out.extend(r.container_id for r in results)
    return out


class ExecTrace:
    """Records one trace (list of event dicts) of a real Executor driven tick by tick."""

    def __init__(self, tid, executor, idx: PipeIndex, U, tps, *, mode="step", exact=None, meta=None,
                 overcommit=False, multi=True):
        self.tid, self.ex, self.idx, self.U, self.tps = tid, executor, idx, U, tps
        self.cids = CidMap()
        self.events = []
        self.t = 0
        ramcap, ramcapr = to_units(executor.ram_gb_per_pool, U)
        self.cfg = {"np": executor.num_pools, "cpucap": executor.cpus_per_pool, "ramcap": ramcap, "ramcapr": ramcapr,
                    "oc": bool(overcommit), "multi": bool(multi), "tps": tps, "U": U, "mode": mode,
                    "suspNum": tps, "suspDen": 20 * U,
                    "minOneTick": True, "minSuspTick": True, "checkPool": True, "reconcileOnSuspend": True}
        self.hdr = {"ev": "hdr", "tid": tid, "mode": mode, "cfg": self.cfg,
                    "wl": [idx.wl_entry(p + 1, U, exact) for p in range(len(idx.pipes))], "meta": meta or {"d": "-"}}
        self.events.append(self.hdr)
        self.exact = exact

    def add_pipeline_late(self, p):
        """A pipeline that arrives during the trace (run_simulator-driven): appended to the spec's workload."""
        self.events.append({"ev": "arrive", "tid": self.tid, "t": self.t, "p": p,
                            "wl": self.idx.wl_entry(p, self.U, self.exact)})

    def cmd_json(self, suspensions, assignments):
        sus = [{"cid": self.cids.get(s.container_id), "pool": s.pool_id + 1} for s in suspensions]
        asg = []
        for a in assignments:
            ram, ramr = to_units(a.ram, self.U)
            asg.append({"ops": [self.idx.ref(o) for o in a.ops], "cpu": a.cpu, "ram": ram, "ramr": ramr, "pool": a.pool_id + 1})
        return sus, asg

    def round(self, sus_json, asg_json, raised=None):
        ev = {"ev": "round", "tid": self.tid, "t": self.t, "sus": sus_json, "asg": asg_json,
              "obs": {"ost": self.idx.ost()}, "raised": raised or ""}
        self.events.append(ev)

    def exec_ok(self, results):
        self.cids.learn(all_container_ids(self.ex, results))
        pools = project_pools(self.ex, self.idx, self.cids, self.U)
        res = [{"cid": self.cids.get(r.container_id), "err": r.error or "", "pool": r.pool_id + 1,
                "ops": [self.idx.ref(o) for o in r.ops]} for r in results]
        self.events.append({"ev": "exec", "tid": self.tid, "t": self.t,
                            "obs": {"ost": self.idx.ost(), "pools": pools, "results": res},
                            "hint": {"oom": [r["cid"] for r in res if r["err"]]}})
        self.t += 1

    def killed(self, container_id, err):
        """Container.kill(err) was called from outside, between two ticks."""
        self.events.append({"ev": "kill", "tid": self.tid, "t": self.t, "cid": self.cids.get(container_id), "err": err, "obs": {"ost": self.idx.ost()}})

    def exec_raised(self, exc, after=False):
        ev = {"ev": "raise", "tid": self.tid, "t": self.t, "exc": type(exc).__name__, "msg": str(exc)[:120], "where": "exec"}
        if after:
            # the caller caught the refusal and goes on using the executor: what the refused call left behind
            self.cids.learn(all_container_ids(self.ex, []))
            ev["after"] = {"ost": self.idx.ost(), "pools": project_pools(self.ex, self.idx, self.cids, self.U), "results": []}
        self.events.append(ev)

    def end(self):
        self.events.append({"ev": "end", "tid": self.tid, "t": self.t})
        return self.events
