"""Drivers A/C for the shipped policies: seeded scenarios (contention, OOM-prone DAG pipelines of all
priorities, 1-tick and multi-tick suspensions, 1-cpu / sub-GB pools, zero-tick segments) run through
the REAL scheduler functions inside the unmodified run_simulator (simrec.record_run).

Scenario inputs are on the decimal grid of driver B (quantum Q = 5/tps GB, durations (k+1/4) ticks), so
the traces can be STEPPED by TraceExec.tla; TraceSched.tla evaluates the per-policy contracts.
"""
from __future__ import annotations

import random
from fractions import Fraction as F

from . import common, simrec

RATIONAL_LAWS = ["const", "linear3", "linear7", "squared", "exp"]
POLICIES = ["naive", "priority", "priority-pool", "overbook"]


def gen_scenario(rng: random.Random, policy: str, flavour: str = "mixed"):
    common.import_repo()
    from eudoxia.workload import Pipeline
    from eudoxia.workload.pipeline import Segment
    from eudoxia.utils import Priority

    tps = rng.choice([1, 2, 4, 5, 10])
    Q = F(5, tps)
    if policy == "priority-pool":
        npools = 2
    elif policy == "naive":
        npools = rng.choice([1, 2, 3])
    else:
        npools = rng.choice([1, 1, 2])
    multi = rng.random() < 0.5
    if policy == "priority-pool":
        multi = True if flavour != "single" else False      # the policy ignores single-operator mode (known finding D6)
    cpus = rng.choice([1, 2, 4, 10, 20, 32])
    # pool RAM: integer GB (so that the policies' int(total/10) GB requests stay on the unit grid)
    ram = rng.choice([1, 2, 5, 10, 20, 40, 80, 200, 400, F(5, 2), F(21, 2), F(161, 4)])
    if flavour == "tiny":
        cpus, ram = rng.choice([1, 2]), rng.choice([F(1, 2), F(3, 4), 1])
    if flavour == "twins":
        multi, cpus, ram = False, rng.choice([4, 10, 20]), rng.choice([200, 400, 1000])
        if policy == "priority-pool":
            multi = True
    if flavour == "preempt":
        cpus, multi, npools = rng.choice([1, 2, 3]), True, (2 if policy == "priority-pool" else rng.choice([1, 1, 2]))
        ram = rng.choice([20, 40, 80, 200, 400, 1000])
    oc = policy == "overbook" or (policy in ("priority-pool", "priority") and rng.random() < 0.25)
    dur_ticks = rng.randint(25, 90)
    npipes = rng.randint(2, 9)
    arrivals, exact = {}, {}
    scale = F(ram) / 10           # the per-job default allocation of priority / priority-pool
    for pi in range(npipes):
        prio = rng.choice([Priority.QUERY, Priority.INTERACTIVE, Priority.BATCH_PIPELINE, Priority.BATCH_PIPELINE])
        if flavour == "preempt":
            prio = rng.choice([Priority.INTERACTIVE, Priority.BATCH_PIPELINE]) if pi < npipes // 2 + 1 else Priority.QUERY
        p = Pipeline(f"s{pi + 1}", prio)
        nops = 1 if (prio == Priority.QUERY and rng.random() < 0.7) else rng.randint(2 if flavour == "preempt" else 1, 4)
        ops = []
        twin = None
        if flavour == "twins":
            nops = rng.choice([3, 4])
        for i in range(nops):
            pa = [j for j in range(i) if rng.random() < 0.45]
            if flavour == "twins":          # a root with identical parallel sink operators: they finish in the same tick in different containers
                pa = [] if i == 0 else [0]
            o = p.new_operator([ops[j] for j in pa] or None)
            if flavour == "twins" and i >= 2:
                for sg0 in ops[1].get_segments():
                    sg = Segment(baseline_cpu_seconds=sg0.baseline_cpu_seconds, cpu_scaling="const", memory_gb=sg0.memory_gb, storage_read_gb=sg0.storage_read_gb)
                    o.add_segment(sg)
                    exact[id(sg)] = dict(exact[id(sg0)])
                ops.append(o)
                continue
            for _ in range(rng.choice([1, 1, 1, 2])):
                law = rng.choice(RATIONAL_LAWS) if flavour != "twins" else "const"
                base = F(4 * rng.choice([0, 1, 2, 3, 6, 10]) + 1, 4 * tps)
                if rng.random() < 0.15:
                    base = F(0)
                # memory relative to the default allocation: mostly fits, sometimes 1.5x / 3x (OOM, then retry with 2x)
                kind = rng.random()
                if kind < 0.45:
                    fixed, kk = None, rng.choice([0, 0, 1, 2])
                elif kind < 0.75:
                    fixed, kk = Q * rng.choice([0, 1, 2]), rng.choice([0, 1, 2])
                else:
                    want = scale * rng.choice([F(3, 2), 3, 6])
                    fixed, kk = Q * max(1, round(want / Q)), rng.choice([0, 1])
                read = (4 * kk + 1) * Q if kk else F(0)
                sg = Segment(baseline_cpu_seconds=float(base), cpu_scaling=law,
                             memory_gb=None if fixed is None else float(fixed), storage_read_gb=float(read))
                o.add_segment(sg)
                exact[id(sg)] = {"read": read, "fixed": fixed, "base": base}
            ops.append(o)
        t = rng.choice([0, 0, 1, 2, 3, 5, 8, 13, 21, rng.randint(0, dur_ticks - 1)])
        if flavour == "preempt":
            t = rng.choice([0, 0, 1]) if prio != Priority.QUERY else rng.randint(2, 20)
        arrivals.setdefault(t, []).append(p)
    if flavour == "herd":
        # a herd of identical two-operator batch pipelines fills every cpu at tick 0 and reaches the operator boundary in the same
        # tick; several queries are then waiting: several preemptions in ONE round, suspensions that end in the SAME tick
        arrivals, exact = {}, {}
        n = rng.choice([4, 6, 10])
        cpus, npools, multi, oc = n, (2 if policy == "priority-pool" else 1), True, policy == "overbook"
        ram = 10 * n
        first = F(4 * rng.choice([2, 3, 5]) + 1, 4 * tps)
        def mkseg(base, fixed):
            sg = Segment(baseline_cpu_seconds=float(base), cpu_scaling="const", memory_gb=float(fixed), storage_read_gb=0.0)
            exact[id(sg)] = {"read": F(0), "fixed": fixed, "base": base}
            return sg
        for k in range(n):
            p = Pipeline(f"h{k + 1}", Priority.BATCH_PIPELINE if policy != "priority-pool" else rng.choice([Priority.BATCH_PIPELINE, Priority.INTERACTIVE]))
            a = p.new_operator()
            a.add_segment(mkseg(first, Q))
            b = p.new_operator([a])
            b.add_segment(mkseg(F(4 * rng.choice([1, 4, 9, 16]) + 1, 4 * tps), Q))
            arrivals.setdefault(0, []).append(p)
        for k in range(rng.choice([2, 2, 3])):
            p = Pipeline(f"q{k + 1}", Priority.QUERY)
            a = p.new_operator()
            a.add_segment(mkseg(F(4 * rng.choice([1, 3, 7]) + 1, 4 * tps), Q))
            arrivals.setdefault(rng.randint(1, 2), []).append(p)
        dur_ticks = rng.randint(30, 60)
    params = {"duration": float(F(dur_ticks, tps)) + 1e-9, "ticks_per_second": tps, "scheduler_algo": policy, "num_pools": npools,
              "cpus_per_pool": cpus, "ram_gb_per_pool": float(ram) if isinstance(ram, F) else ram,
              "multi_operator_containers": multi, "allow_memory_overcommit": oc}
    return params, arrivals, exact, tps


def run_scenario(seed: int, tid: int, policy: str, flavour="mixed", mode="step"):
    rng = random.Random(seed)
    params, arrivals, exact, tps = gen_scenario(rng, policy, flavour)
    wl = simrec.ScriptedWorkload(arrivals)
    events, stats, exc = simrec.record_run(params, tid=tid, workload=wl, exact=exact, mode=mode, U=4 * tps,
                                           meta={"seed": seed, "driver": "A", "policy": policy, "flavour": flavour})
    return events


def _chunk(args):
    seeds, tid0, policy, flavour, mode = args
    common.import_repo()
    return [run_scenario(sd, tid0 + i, policy, flavour, mode) for i, sd in enumerate(seeds)]


def gen_traces(n: int, seed: int, policies=POLICIES, flavours=(("mixed", 0.5), ("tiny", 0.15), ("preempt", 0.25), ("herd", 0.1)), mode="step", procs=None):
    import multiprocessing as mp
    rng = random.Random(seed)
    jobs, tid = [], 0
    per = max(1, n // len(policies))
    for pol in policies:
        for fl, frac in flavours:
            m = max(1, round(per * frac))
            seeds = [rng.randrange(2**31) for _ in range(m)]
            step = max(1, (m + 15) // 16)
            for i in range(0, m, step):
                jobs.append((seeds[i:i + step], tid + i, pol, fl, mode))
            tid += m
    with mp.get_context("fork").Pool(procs or common.NCPU) as pool:
        out = pool.map(_chunk, jobs)
    return [tr for ch in out for tr in ch]


def long_run(seed: int, tid: int, ticks: int = 13000):
    """A long simulation (thousands of ticks) under the priority policy with long write-outs that are in progress most of the time:
    periodic or tick-count-dependent behaviour of the executor is only visible in runs of this length.  Sparse, obs mode."""
    common.import_repo()
    from eudoxia.workload import Pipeline
    from eudoxia.workload.pipeline import Segment
    from eudoxia.utils import Priority
    rng = random.Random(seed)
    tps = 10
    cpus = rng.choice([3, 4, 6])
    ram = rng.choice([2000, 4000])            # 10 % = 200..400 GB per container: write-outs of 100..200 ticks
    arrivals = {}
    t = 0
    k = 0
    while t < ticks - 400:
        for _ in range(cpus):
            k += 1
            p = Pipeline(f"L{k}", rng.choice([Priority.BATCH_PIPELINE, Priority.INTERACTIVE]))
            a = p.new_operator()
            a.add_segment(Segment(baseline_cpu_seconds=rng.choice([2.0, 3.0, 5.0]), cpu_scaling="const", memory_gb=1.0, storage_read_gb=0.0))
            b = p.new_operator([a])
            b.add_segment(Segment(baseline_cpu_seconds=rng.choice([4.0, 9.0]), cpu_scaling="const", memory_gb=1.0, storage_read_gb=0.0))
            arrivals.setdefault(t, []).append(p)
        for j in range(rng.choice([1, 2])):
            k += 1
            q = Pipeline(f"L{k}", Priority.QUERY)
            o = q.new_operator()
            o.add_segment(Segment(baseline_cpu_seconds=rng.choice([1.0, 2.0]), cpu_scaling="const", memory_gb=1.0, storage_read_gb=0.0))
            arrivals.setdefault(t + rng.randint(5, 25), []).append(q)
        t += rng.randint(180, 320)
    params = {"duration": ticks / tps + 1e-9, "ticks_per_second": tps, "scheduler_algo": "priority", "num_pools": 1, "cpus_per_pool": cpus,
              "ram_gb_per_pool": ram, "multi_operator_containers": True, "allow_memory_overcommit": False}
    events, stats, exc = simrec.record_run(params, tid=tid, workload=simrec.ScriptedWorkload(arrivals), mode="obs", U=1000, sparse=True,
                                           meta={"seed": seed, "driver": "A-long", "policy": "priority", "flavour": "long"})
    return events
