"""Recording full simulations: the UNMODIFIED run_simulator is driven with a recording Workload
and a recording scheduler registered through the public decorators under `verif:<policy>`; the
executor INSTANCE the scheduler holds gets its run_one_tick wrapped (harness-side attribute) so
that every tick's results and post-state are recorded, including the last tick's.

Events (one trace per run): hdr, arrive, round, exec, raise, end (with the returned statistics).
No judgement here: the TLA+ monitors (TraceExec, TraceSched, TraceSim) decide everything.
"""
from __future__ import annotations

import math
from fractions import Fraction as F

from . import common
from .rec import PipeIndex, CidMap, project_pools, all_container_ids, to_units


class ScriptedWorkload:
    """Delivers pre-built pipelines at given ticks (a scenario)."""

    def __init__(self, arrivals):
        # arrivals: dict tick -> list of Pipeline
        self.arrivals = arrivals
        self.t = 0

    def run_one_tick(self):
        out = list(self.arrivals.get(self.t, []))
        self.t += 1
        return out


def ratio(x):
    """A float as [num, den] small enough for TLC (micro precision), or a tag for nan/inf."""
    if x is None:
        return ["none", 0]
    if isinstance(x, float) and math.isnan(x):
        return ["nan", 0]
    if isinstance(x, float) and math.isinf(x):
        return ["inf", 0]
    v = round(float(x) * 10**6)
    if abs(v) >= 2**31 - 8:
        # TLC's integers have 32 bits (and its JSON reader wraps larger ones silently): figures above 2147 s are handed over in milli-units
        return ["milli", round(float(x) * 10**3)] if abs(float(x)) * 10**3 < 2**31 - 8 else ["huge", 0]
    return ["num", v]


def micro_dur(seconds):
    v = round(float(seconds) * 10**6)
    if v >= 2**31 - 8:
        raise common.MachineryError(f"a run of {seconds} s does not fit the monitor's 32-bit micro-seconds: keep driver durations below 2147 s")
    return v


def stats_json(stats):
    d = stats.to_dict()
    out = {"pipelines_created": d["pipelines_created"], "containers_completed": d["containers_completed"],
           "assignments": d["assignments"], "suspensions": d["suspensions"], "failures": d["failures"],
           "failure_error_counts": [[k, v] for k, v in sorted(d["failure_error_counts"].items())],
           "throughput": ratio(d["throughput"]), "p99_latency": ratio(d["p99_latency"]), "adjusted": ratio(stats.adjusted_latency())}
    for k in ("pipelines_all", "pipelines_query", "pipelines_interactive", "pipelines_batch"):
        out[k] = {"arrival_count": d[k]["arrival_count"], "completion_count": d[k]["completion_count"],
                  "mean": ratio(d[k]["mean_latency_seconds"]), "p99": ratio(d[k]["p99_latency_seconds"])}
    return out


STARTER_NAME = "VerifStarter"


def record_run(params: dict, *, tid: int, workload=None, exact=None, mode="obs", U=None, meta=None, policy_key=None, sparse=False, ret_ctx=False, holder=None, lean=False, distract=None, boost=None, kills=None):
    """Run run_simulator(params, workload) and return (events, stats_or_None, exception_or_None)."""
    common.import_repo()
    from eudoxia.simulator import run_simulator, parse_args_with_defaults
    from eudoxia.workload import WorkloadGenerator
    from eudoxia.scheduler.decorators import INIT_ALGOS, SCHEDULING_ALGOS

    full = parse_args_with_defaults(params)
    algo = policy_key or full["scheduler_algo"]
    tps = full["ticks_per_second"]
    U = U or 1000
    idx = PipeIndex()
    cids = CidMap()
    events = []
    st = {"t": 0, "ex": None, "wrapped": False, "last_results": [], "arrived_now": [], "ost": [], "live": set()}

    def ost_delta():
        """lean recording (runs with thousands of pipelines): only the pipelines whose operator states differ from the last report.
        A pipeline seen with every operator completed is not looked at again until the end of the run (final_ost is complete)."""
        old, d = st["ost"], []
        for k in range(len(old), len(idx.ops)):
            old.append(None)
            st["live"].add(k)
        for k in sorted(st["live"]):
            now = [o.state().value for o in idx.ops[k]]
            if now != old[k]:
                d.append([k + 1, now])
                old[k] = now
                if all(x == "completed" for x in now):
                    st["live"].discard(k)
        return d

    def hdr(ex):
        ramcap, ramcapr = to_units(ex.ram_gb_per_pool, U)
        cfg = {"np": ex.num_pools, "cpucap": ex.cpus_per_pool, "ramcap": ramcap, "ramcapr": ramcapr,
               "oc": bool(full["allow_memory_overcommit"]), "multi": bool(full["multi_operator_containers"]),
               "tps": tps, "U": U, "mode": mode, "suspNum": tps, "suspDen": 20 * U,
               "minOneTick": True, "minSuspTick": True, "checkPool": True, "reconcileOnSuspend": True, "requeueShortSuspension": True,
               "policy": "starter" if algo == STARTER_NAME else algo, "duration_ticks": int(full["duration"] * tps),
               "dur": micro_dur(full["duration"])}
        events.insert(0, {"ev": "hdr", "tid": tid, "mode": mode, "cfg": cfg, "wl": [], "meta": meta or {"d": "-"}})

    class RecWorkload:
        def __init__(self, inner):
            self.inner = inner
            self.t = 0

        def run_one_tick(self):
            if distract is not None and self.t == distract:
                # another simulation is being set up in this process while this one is running (e.g. a workload that builds a scratch
                # Executor to read the cluster's capacity): it must not disturb this one
                from eudoxia.executor import Executor as _Ex
                _Ex(num_pools=1, cpus_per_pool=2, ram_gb_per_pool=4.0, ticks_per_second=tps)
            if kills is not None and st["ex"] is not None and kills.random() < 0.08:
                # somebody kills a live container from outside (the public Container.kill) between two ticks
                live = [c for R in st["ex"].pools for c in R.active_containers if not c.is_completed()]
                if live:
                    c = kills.choice(live)
                    c.kill("evicted")
                    events.append({"ev": "kill", "tid": tid, "t": self.t, "cid": cids.get(c.container_id), "err": "evicted", "obs": {"ost": idx.ost()}})
            ps = self.inner.run_one_tick()
            st["arrived_now"] = []
            for p in ps:
                p.runtime_status()
                k = idx.add(p)
                st["arrived_now"].append(k)
                events.append({"ev": "arrive", "tid": tid, "t": self.t, "p": k, "wl": idx.wl_entry(k, U, exact)})
            self.t += 1
            return ps

    def pools_view(ex):
        cids.learn(all_container_ids(ex))
        return project_pools(ex, idx, cids, U)

    def res_json(results):
        out = []
        for r in results:
            ram, ramr = to_units(r.ram, U)
            out.append({"cid": cids.get(r.container_id), "err": r.error or "", "pool": r.pool_id + 1,
                        "ops": [idx.ref(o) for o in r.ops], "cpu": r.cpu, "ram": ram, "ramr": ramr, "prio": r.priority.name[0]})
        return out

    key = "verif:" + algo

    def wrap_executor(ex):
        if getattr(ex, "_verif_wrapped", False):
            return
        real = ex.run_one_tick

        def run_one_tick(suspensions, assignments):
            try:
                res = real(suspensions, assignments)
            except BaseException as e:  # noqa: BLE001
                events.append({"ev": "raise", "tid": tid, "t": st["t"], "exc": type(e).__name__, "msg": str(e)[:120], "where": "exec"})
                raise
            cids.learn(all_container_ids(ex, res))
            if sparse and not res and not suspensions and not assignments:
                st["t"] += 1
                return res
            if lean:
                events.append({"ev": "exec", "tid": tid, "t": st["t"], "obs": {"ostd": ost_delta(), "results": res_json(res)}})
            else:
                events.append({"ev": "exec", "tid": tid, "t": st["t"],
                               "obs": {"ost": idx.ost(), "pools": project_pools(ex, idx, cids, U), "results": res_json(res)},
                               "hint": {"oom": [cids.get(r.container_id) for r in res if r.error]}})
            st["t"] += 1
            return res

        ex.run_one_tick = run_one_tick
        ex._verif_wrapped = True

    def sched(s, results, pipelines):
        ex = s.executor
        if st["ex"] is None:
            st["ex"] = ex
            if holder is not None:
                holder["ex"] = ex
            hdr(ex)
            wrap_executor(ex)
        pre = {"ost": [] if lean else idx.ost(), "pools": None}       # the policy cannot change the pools: their view is taken when the event is logged
        try:
            sus, asg = SCHEDULING_ALGOS[algo](s, results, pipelines)
        except BaseException as e:  # noqa: BLE001
            pre["pools"] = pools_view(ex)
            events.append({"ev": "round", "tid": tid, "t": st["t"], "new": list(st["arrived_now"]), "results": res_json(results),
                           "pre": pre, "sus": [], "asg": [], "obs": {"ost": idx.ost()}, "raised": f"{type(e).__name__}: {str(e)[:100]}"})
            raise
        if boost is not None:
            # the priority of a container is the scheduler's choice (an external policy may run everything at QUERY): the simulator's
            # per-class statistics are about PIPELINES
            for a in asg:
                a.priority = boost.choice(list(type(a.priority)))
        if sparse and not sus and not asg and not results and not pipelines:
            return sus, asg
        if lean:
            events.append({"ev": "round", "tid": tid, "t": st["t"], "new": list(st["arrived_now"]), "sus": [0] * len(sus), "asg": [0] * len(asg), "raised": ""})
            return sus, asg
        pre["pools"] = pools_view(ex)
        sj = [{"cid": cids.get(x.container_id), "pool": x.pool_id + 1} for x in sus]
        aj = []
        for a in asg:
            ram, ramr = to_units(a.ram, U)
            aj.append({"ops": [idx.ref(o) for o in a.ops], "cpu": a.cpu, "ram": ram, "ramr": ramr, "pool": a.pool_id + 1,
                       "prio": a.priority.name[0]})
        events.append({"ev": "round", "tid": tid, "t": st["t"], "new": list(st["arrived_now"]), "results": res_json(results),
                       "pre": pre, "sus": sj, "asg": aj, "obs": {"ost": idx.ost()}, "raised": ""})
        return sus, asg

    INIT_ALGOS[key] = lambda s: INIT_ALGOS[algo](s)
    SCHEDULING_ALGOS[key] = sched
    p2 = dict(params)
    p2["scheduler_algo"] = key
    stats, exc = None, None
    import eudoxia.simulator as _simmod
    real_gen = _simmod.WorkloadGenerator
    try:
        if workload is not None:
            stats = run_simulator(p2, workload=RecWorkload(workload))
        else:
            # no workload given: run_simulator builds the generator itself from the parameter set - that path is the one under test, so the
            # recorder is slipped around whatever run_simulator constructs (the name it looks up in its module), not around one built here
            _simmod.WorkloadGenerator = lambda *a, **k: RecWorkload(real_gen(*a, **k))
            stats = run_simulator(p2)
    except BaseException as e:  # noqa: BLE001
        exc = e
        if not events or events[-1]["ev"] != "raise":
            events.append({"ev": "raise", "tid": tid, "t": st["t"], "exc": type(e).__name__, "msg": str(e)[:120], "where": "sim"})
    finally:
        _simmod.WorkloadGenerator = real_gen
        INIT_ALGOS.pop(key, None)
        SCHEDULING_ALGOS.pop(key, None)
    if not events or events[0]["ev"] != "hdr":
        # the scheduler was never called (zero ticks) or the run failed before the first round
        ramcap, ramcapr = to_units(full["ram_gb_per_pool"], U)
        events.insert(0, {"ev": "hdr", "tid": tid, "mode": mode, "meta": meta or {"d": "-"}, "wl": [],
                          "cfg": {"np": full["num_pools"], "cpucap": full["cpus_per_pool"], "ramcap": ramcap, "ramcapr": ramcapr,
                                  "oc": bool(full["allow_memory_overcommit"]), "multi": bool(full["multi_operator_containers"]),
                                  "tps": tps, "U": U, "mode": mode, "suspNum": tps, "suspDen": 20 * U,
                                  "minOneTick": True, "minSuspTick": True, "checkPool": True, "reconcileOnSuspend": True, "requeueShortSuspension": True,
                                  "policy": "starter" if algo == STARTER_NAME else algo, "duration_ticks": int(full["duration"] * tps), "dur": micro_dur(full["duration"])}})
    pipes = [[(-1 if p.runtime_status().arrival_tick is None else p.runtime_status().arrival_tick),
              (-1 if p.runtime_status().finish_tick is None else p.runtime_status().finish_tick)] for p in idx.pipes]
    end = {"ev": "end", "tid": tid, "t": st["t"], "stats": stats_json(stats) if stats is not None else {"none": 1},
           "ok": stats is not None, "pipes": pipes, "final_ost": idx.ost(), "uncontended": bool((meta or {}).get("uncontended"))}
    events.append(end)
    if ret_ctx:
        return events, stats, exc, {"idx": idx, "cids": cids}
    return events, stats, exc
