"""Driver E (replay): CSV traces through the real CSVWorkloadReader + WorkloadTrace (C13), and gentrace
round trips.  The harness writes files, runs the real code and logs which tick delivered which pipeline;
TraceReplayCheck.tla decides (the arrival tick certificate ceil(a*tps) is re-checked there exactly)."""
from __future__ import annotations

import io
import math
import random
from decimal import Decimal
from fractions import Fraction as F

from . import common

HEADER = "pipeline_id,arrival_seconds,priority,operator_id,parents,baseline_cpu_seconds,cpu_scaling,memory_gb,storage_read_gb\n"
TPS_GRID = [1, 10, 100, 1000, 10**4, 10**5, 3, 7, 60, 25, 30]


def limbs(n: int):
    """A natural number as little-endian base-10^4 limbs (spec/BigNat.tla)."""
    out = []
    while n:
        out.append(n % 10000)
        n //= 10000
    return out


def dec_str(x: F, places: int) -> str:
    """x as a plain decimal string with at most `places` digits after the point (x must be representable or is rounded)."""
    q = Decimal(x.numerator) / Decimal(x.denominator)
    s = format(q.quantize(Decimal(1).scaleb(-places)), "f")
    if "." in s:
        s = s.rstrip("0").rstrip(".")
    return s or "0"


def make_case(rng: random.Random):
    tps = rng.choice(TPS_GRID) if rng.random() < 0.85 else rng.randint(1, 100000)
    n = rng.randint(1, 40)
    far = rng.random() < 0.3
    # window of ticks in which the arrivals lie
    span = rng.choice([3, 10, 40, 200])
    if far:
        hi = min(1_900 * tps - n * span - 10, 5_000_000)     # every arrival < 2000 s: with 6 decimals its numerator fits 31 bits
        t0 = rng.randint(0, max(0, hi))
    else:
        t0 = 0
        if (n * span + 10) > 1900 * tps:
            span = 3
    arr = []
    k = t0
    for _ in range(n):
        step = rng.choice([0, 0, 1, 1, 2, rng.randint(0, span)])
        k += step
        kind = rng.random()
        if kind < 0.55:
            a = F(k, tps)                              # on the grid (exactly, when tps divides a power of ten)
        elif kind < 0.8:
            a = F(k, tps) + F(rng.randint(1, 999), 1000 * tps)        # strictly inside a tick
        elif kind < 0.9:
            a = F(k, tps) + F(1, 10**6)                # a hair above a boundary
        else:
            a = max(F(0), F(k, tps) - F(1, 10**6))     # a hair below a boundary
        arr.append(a)
    places = 6
    if rng.random() < 0.25:
        # two consecutive arrivals a few parts in 10^10 apart, straddling a tick boundary, at a large time (they are different arrival times)
        places = 9
        big = rng.choice([10**5, 10**6]) if tps <= 1000 else 10**4
        kk = rng.randint(big * tps // 2, big * tps)
        # closer than one part in 10^9 of their magnitude, yet different arrival times in different ticks
        eps = max(F(1, 10**9), F(round(kk / tps * rng.choice([1, 2, 4])), 10**10))
        arr = [F(kk, tps) - eps, F(kk, tps) + eps] + ([F(kk + 3, tps)] if rng.random() < 0.5 else [])
        arr = [a for a in arr if a >= 0]
        k, t0 = kk + 3, kk - 3
    arr.sort()
    strs = [dec_str(a, places) for a in arr]
    maxticks = (k - t0) + rng.choice([-3, 0, 1, 5]) + 1 if rng.random() < 0.5 else (k - t0) + 10
    return {"tps": tps, "arrivals": strs, "t0": max(0, t0 - 2), "window": max(1, maxticks + 2)}


def run_case(case, tid):
    from eudoxia.workload.csv_io import CSVWorkloadReader
    tps, strs = case["tps"], case["arrivals"]
    buf = io.StringIO()
    buf.write(HEADER)
    for i, a in enumerate(strs):
        buf.write(f"p{i + 1},{a},BATCH_PIPELINE,op1,,1,const,,1\n")
    buf.seek(0)
    reader = CSVWorkloadReader(buf)
    usage = (tid * 2654435761) % 10          # legal but less common ways of using the reader and its result (deterministic per case)
    # (usage 2: a sweep over tick rates with ONE reader object - the first replay runs at another rate than the one that is measured)
    wl = reader.get_workload(tps if usage != 2 else (tps * 10 if tid % 3 else max(1, tps // 2)))
    if usage in (1, 2):
        # one reader object used for a second replay of the rewound file (e.g. a loop comparing schedulers on one trace):
        # the first replay is consumed a little, the second one must start from the beginning
        try:
            for _ in range(3):
                wl.run_one_tick()
            buf.seek(0)
            wl = reader.get_workload(tps)
        except Exception:  # noqa: BLE001
            pass
    start = case["t0"]
    if start:
        wl.current_tick = start            # public cursor attribute: skip an empty prefix of the run
    end = start + case["window"]
    deliv = [-1] * len(strs)
    count = [0] * len(strs)
    pos = [0] * len(strs)
    backlog = []
    for t in range(start, end):
        try:
            ps = wl.run_one_tick()
        except Exception:  # noqa: BLE001 - a well-formed trace must replay; what was not delivered is then reported as such
            break
        for j, p in enumerate(ps):
            i = int(p.pipeline_id[1:]) - 1
            count[i] += 1
            if deliv[i] < 0:
                deliv[i] = t
                pos[i] = j
        if usage in (3, 4, 5):
            # a consumer that keeps working on the list it was handed (a scheduler doing `pipelines += backlog`): the list is the caller's
            fresh = list(ps)
            if len(ps) <= len(strs):          # (a list that keeps coming back with what was put into it is already a finding: stop feeding it)
                ps += backlog
            backlog.extend(fresh[:len(strs)])
            del backlog[4 * len(strs) + 4:]
    rows, sig = [], []
    for i, a in enumerate(strs):
        d = Decimal(a)
        fr = F(d)
        T = math.ceil(fr * tps)
        rows.append({"id": i + 1, "num": limbs(fr.numerator), "den": limbs(fr.denominator), "cert": T, "text": a})
        # data for the known-findings matcher only (never for the verdict): how the IEEE expression of the reader evaluates
        fl = float(a) / (1.0 / tps)
        late = deliv[i] - T if deliv[i] >= 0 else (1 if T == end - 1 else -99)     # due in the last observed tick: one tick late is outside the window
        sig.append([late, 1 if fl > T else 0])
    assert all(r["cert"] < 2**31 for r in rows)
    return {"kind": "replay", "tid": tid, "tps": tps, "maxticks": end, "start": start,
            "rows": [{"id": r["id"], "num": r["num"], "den": r["den"], "cert": r["cert"]} for r in rows],
            "deliv": deliv, "count": count, "pos": pos, "sig": sig, "texts": strs}


def roundtrip_case(seed, tid):
    """gentrace -> file -> replay: each pipeline must be replayed in the tick the generator produced it."""
    from eudoxia.simulator import parse_args_with_defaults
    from eudoxia.workload import WorkloadGenerator
    from eudoxia.workload.csv_io import CSVWorkloadReader, CSVWorkloadWriter, WorkloadTraceGenerator
    rng = random.Random(seed)
    tps = rng.choice([1, 2, 3, 7, 10, 25, 30, 60, 100, 1000, 10**4, 30000, 60000, 70000, 90000, 99999, 10**5])          # incl. tick lengths that are not decimal fractions, where the first arrivals lie below 1e-4 s
    ticks = rng.choice([40, 150, 600])
    params = parse_args_with_defaults({
        "duration": float(F(ticks, tps)) + 1e-9, "ticks_per_second": tps,
        "waiting_seconds_mean": float(F(rng.choice([1, 2, 5, 13]), tps)) if rng.random() < 0.85 else float(F(1, 2 * tps)), "num_pipelines": rng.choice([1, 2, 3]),
        "num_operators": rng.choice([1, 3]), "random_seed": rng.randrange(10**6)})
    gen = WorkloadGenerator(**params)
    gen_ticks = []
    real = gen.run_one_tick
    state = {"t": 0}

    def rec():
        ps = real()
        gen_ticks.extend([state["t"]] * len(ps))
        state["t"] += 1
        return ps
    gen.run_one_tick = rec
    buf = io.StringIO()
    w = CSVWorkloadWriter(buf)
    written = []
    for row in WorkloadTraceGenerator(workload=gen, ticks_per_second=tps, duration_secs=params["duration"]).generate_rows():
        w.write_row(row)
        if row.arrival_seconds is not None:
            written.append(row.arrival_seconds)
    buf.seek(0)
    wl = CSVWorkloadReader(buf).get_workload(tps)
    replay = []
    for t in range(ticks + 3):
        replay.extend([t] * len(wl.run_one_tick()))
    n = min(len(gen_ticks), len(replay))
    sig = []
    for i in range(len(gen_ticks)):
        late = (replay[i] - gen_ticks[i]) if i < len(replay) else -99
        fl = written[i] / (1.0 / tps) if i < len(written) else 0.0
        # ... and whether the file holds exactly the float the pinned writer's expression tick * (1.0 / tps) gives (part of D8's signature)
        wexpr = 1 if i < len(written) and written[i] == gen_ticks[i] * (1.0 / tps) else 0
        sig.append([late, 1 if fl > gen_ticks[i] else 0, wexpr])
    # pipelines generated in the last ticks may fall beyond the replayed window: compare only what both saw
    return {"kind": "roundtrip", "tid": tid, "tps": tps, "gen": gen_ticks[:n] if len(replay) >= len(gen_ticks) else gen_ticks,
            "replay": replay[:len(gen_ticks)], "sig": sig, "seed": seed}


def roundtrip_sim_case(seed, tid):
    """`run` versus `gentrace` + `run -w`: the arrivals the simulator itself sees (tick and size of every pipeline), for durations and tick
    rates whose product is not computed exactly in floating point."""
    from . import simrec
    from eudoxia.simulator import parse_args_with_defaults
    from eudoxia.workload import WorkloadGenerator
    from eudoxia.workload.csv_io import CSVWorkloadReader, CSVWorkloadWriter, WorkloadTraceGenerator
    rng = random.Random(seed)
    tps = rng.choice([3, 5, 7, 10, 25, 60, 75, 77, 91, 93, 99, 100, 128, rng.randint(2, 100)])
    ticks = rng.randint(3, 200)
    duration = rng.choice([ticks / tps, float(F(ticks, tps)), rng.choice([0.6, 1.2, 3, 2.4, 0.3, 7])])
    base = {"duration": duration, "ticks_per_second": tps, "waiting_seconds_mean": float(F(rng.choice([1, 1, 2]), tps)), "num_pipelines": rng.choice([1, 2]),
            "num_operators": 1, "random_seed": rng.randrange(10**6), "scheduler_algo": "naive", "num_pools": 1, "cpus_per_pool": 4, "ram_gb_per_pool": 64}

    def arrivals(events):
        return [[e["t"], len(e["wl"]["ops"]), e["wl"]["prio"]] for e in events if e["ev"] == "arrive"]
    ev1, st1, ex1 = simrec.record_run(dict(base), tid=tid, mode="obs", U=1000, sparse=True)
    full = parse_args_with_defaults(dict(base))
    buf = io.StringIO()
    w = CSVWorkloadWriter(buf)
    written = []
    for row in WorkloadTraceGenerator(workload=WorkloadGenerator(**full), ticks_per_second=tps, duration_secs=full["duration"]).generate_rows():
        w.write_row(row)
        if row.arrival_seconds is not None:
            written.append(row.arrival_seconds)
    buf.seek(0)
    wl = CSVWorkloadReader(buf).get_workload(tps)
    ev2, st2, ex2 = simrec.record_run(dict(base), tid=tid, workload=wl, mode="obs", U=1000, sparse=True)
    a1, a2 = arrivals(ev1), arrivals(ev2)
    sig = []
    for i in range(len(a1)):
        late = (a2[i][0] - a1[i][0]) if i < len(a2) else -99
        fl = written[i] / (1.0 / tps) if i < len(written) else 0.0
        wexpr = 1 if i < len(written) and written[i] == a1[i][0] * (1.0 / tps) else 0
        # a pipeline the generator produced in the last tick and that replays one tick late (D8w) falls off the end of the run
        if late == -99 and i < len(written) and wexpr and fl > a1[i][0] and a1[i][0] == int(full["duration"] * tps) - 1:
            late = 1
        sig.append([late, 1 if fl > a1[i][0] else 0, wexpr])
    return {"kind": "roundtrip", "tid": tid, "tps": tps, "gen": [x[0] for x in a1], "replay": [x[0] for x in a2][:len(a1)] + [-1] * max(0, len(a1) - len(a2)),
            "sig": sig, "seed": seed, "sim": True, "duration": repr(duration)}


def roundtrip_cli_case(seed, tid):
    """The same comparison through the COMMAND LINE: `eudoxia run P` versus `eudoxia gentrace P F` + `eudoxia run P -w F`, with the parameter
    file on disk.  run_command's call of run_simulator is the only thing replaced - by the recorder, which calls the real one."""
    import os
    from . import simrec
    import eudoxia.__main__ as cli_mod
    rng = random.Random(seed)
    tps = rng.choice([1, 3, 5, 7, 10, 25, 60, 75, 77, 91, 93, 99, 100, 128, 1000, 30000, 60000, 90000, rng.randint(2, 100)])
    ticks = rng.randint(3, 200)
    duration = rng.choice([ticks / tps, float(F(ticks, tps)), rng.choice([0.6, 1.2, 3, 2.4, 0.3, 7])])
    if tps >= 1000:
        duration = ticks / tps
    d = str(common.scratch())
    pfile, tfile = f"{d}/p{tid}.toml", f"{d}/t{tid}.csv"
    keys = [("duration", repr(float(duration))), ("ticks_per_second", str(tps)), ("waiting_seconds_mean", repr(float(F(rng.choice([1, 1, 2, 5]), tps)))),
            ("num_pipelines", str(rng.choice([1, 2, 3]))), ("num_operators", str(rng.choice([1, 1, 3]))), ("random_seed", str(rng.randrange(10**6))),
            ("scheduler_algo", '"naive"'), ("num_pools", "1"), ("cpus_per_pool", "4"), ("ram_gb_per_pool", "64")]
    rng.shuffle(keys)
    with open(pfile, "w") as f:
        f.write("".join(f"{k} = {v}\n" for k, v in keys))
    runs = []
    real = cli_mod.run_simulator

    def recording(params, workload=None):
        ev, st, ex = simrec.record_run(dict(params), tid=tid, workload=workload, mode="obs", U=1000, sparse=True)
        runs.append(ev)
        if ex is not None:
            raise ex
        return st
    cli_mod.run_simulator = recording
    try:
        c1, _ = common.cli(["run", pfile])
        c2, out2 = common.cli(["gentrace", pfile, tfile, "-f"])
        c3, _ = common.cli(["run", pfile, "-w", tfile])
    finally:
        cli_mod.run_simulator = real
    arr = lambda events: [[e["t"], len(e["wl"]["ops"]), e["wl"]["prio"]] for e in events if e["ev"] == "arrive"]
    a1 = arr(runs[0]) if len(runs) >= 1 else []
    a2 = arr(runs[1]) if len(runs) >= 2 else []
    written = []
    if os.path.exists(tfile):
        import csv as _csv
        with open(tfile, newline="") as f:
            written = [float(r["arrival_seconds"]) for r in _csv.DictReader(f) if r["arrival_seconds"].strip()]
    sig = []
    lastgen = int(float(duration) * tps) - 1
    for i in range(len(a1)):
        late = (a2[i][0] - a1[i][0]) if i < len(a2) else -99
        fl = written[i] / (1.0 / tps) if i < len(written) else 0.0
        wexpr = 1 if i < len(written) and written[i] == a1[i][0] * (1.0 / tps) else 0
        if late == -99 and i < len(written) and wexpr and fl > a1[i][0] and a1[i][0] == lastgen:
            late = 1
        sig.append([late, 1 if fl > a1[i][0] else 0, wexpr])
    for fn in (pfile, tfile):
        if os.path.exists(fn):
            os.unlink(fn)
    ok = (c1, c2, c3) == (0, 0, 0) and len(runs) == 2
    return {"kind": "roundtrip", "tid": tid, "tps": tps, "gen": [x[0] for x in a1] if ok else [0], "seed": seed, "sim": True, "cli": True,
            "replay": ([x[0] for x in a2][:len(a1)] + [-1] * max(0, len(a1) - len(a2))) if ok else [-7], "sig": sig if ok else [[-99, 0, 0]],
            "duration": repr(duration), "exit_codes": [c1, c2, c3]}


def _chunk(args):
    kind, seed, tid0, n = args
    common.import_repo()
    rng = random.Random(seed)
    out = []
    for i in range(n):
        if kind == "replay":
            out.append([run_case(make_case(rng), tid0 + i)])
        elif i % 4 == 1:
            out.append([roundtrip_sim_case(rng.randrange(2**31), tid0 + i)])
        elif i % 4 == 3:
            out.append([roundtrip_cli_case(rng.randrange(2**31), tid0 + i)])
        else:
            out.append([roundtrip_case(rng.randrange(2**31), tid0 + i)])
    return out


def gen_lines(n_replay, n_round, seed):
    import multiprocessing as mp
    jobs = []
    per = max(1, n_replay // 32)
    for i in range(0, n_replay, per):
        jobs.append(("replay", seed * 7919 + i, i, min(per, n_replay - i)))
    per2 = max(1, n_round // 16)
    for i in range(0, n_round, per2):
        jobs.append(("roundtrip", seed * 104729 + i, n_replay + i, min(per2, n_round - i)))
    with common.pool(common.NCPU) as pool:
        out = pool.map(_chunk, jobs)
    return [x for ch in out for x in ch]
