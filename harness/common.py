"""Shared machinery: paths, TLC runner, VIOL parsing, evidence, known findings, verdicts.

Exit codes used by every check: 0 held, 1 violation (with a VIOLATION line), 2 machinery failure.
"""
from __future__ import annotations

import json
import os
import re
import shutil
import subprocess
import sys
import tempfile
import time
from dataclasses import dataclass, field
from pathlib import Path

from . import tlaval

VERIF = Path(__file__).resolve().parent.parent
REPO = Path(os.environ.get("VERIF_REPO", "/repo")).resolve()
SPEC = VERIF / "spec"
OUT = VERIF / "out"
EVID = VERIF / "evidence" if str(REPO) == "/repo" else OUT / "evidence-other-tree"
JAVA_CP = "/opt/veriftools/tla/tla2tools.jar:/opt/veriftools/tla/CommunityModules-deps.jar"
NCPU = os.cpu_count() or 4
GUARD = "EUDOXIA_VERIF"


class MachineryError(Exception):
    """Something in the verification machinery failed (never a verdict)."""


def seed() -> int:
    try:
        return int(os.environ.get("VERIF_SEED", "20260926"))
    except ValueError:
        return 20260926


_scratch_root = None


def scratch(name: str = "") -> Path:
    """A fresh scratch directory outside /repo and /verif, removed at exit."""
    global _scratch_root
    if _scratch_root is None:
        inherited = os.environ.get("VERIF_SCRATCH_ROOT")
        if inherited and Path(inherited).is_dir():
            _scratch_root = Path(inherited)          # a worker process: the root belongs to (and is removed by) the process that started the pool
        else:
            base = os.environ.get("VERIF_TMP") or tempfile.gettempdir()
            _scratch_root = Path(tempfile.mkdtemp(prefix="eudoxia-verif-", dir=base))
            import atexit
            atexit.register(lambda: shutil.rmtree(_scratch_root, ignore_errors=True))
    if name:
        d = _scratch_root / name
        d.mkdir(parents=True, exist_ok=True)
        return d
    return Path(tempfile.mkdtemp(prefix="d", dir=_scratch_root))


def pool(n: int):
    """A pool of worker processes that do NOT inherit this process's memory (forkserver): a check that has already collected gigabytes
    of traces can start another pool without every worker touching - and thereby copying - those pages."""
    import multiprocessing as mp
    scratch("pool")          # makes sure the scratch root exists; the workers (and the fork server) learn it from the environment
    os.environ["VERIF_SCRATCH_ROOT"] = str(_scratch_root)
    ctx = mp.get_context("forkserver")
    return ctx.Pool(max(1, n))


def cli(argv, stdin=None):
    """Run the package's command line (eudoxia.__main__.main) in this process with stdout/stderr swallowed.
    Returns (exit code or 0, captured text).  A SystemExit is the command's way of refusing."""
    import io
    from eudoxia.__main__ import main as eudoxia_main
    so, se = sys.stdout, sys.stderr
    buf = io.StringIO()
    sys.stdout = sys.stderr = buf
    code = 0
    try:
        eudoxia_main(list(argv))
    except SystemExit as e:
        code = e.code if isinstance(e.code, int) else 1
    finally:
        sys.stdout, sys.stderr = so, se
    return code, buf.getvalue()


def import_repo():
    """Make `import eudoxia` resolve to REPO as it is on disk now, silently - but with logging ENABLED as the package configures it
    (`import eudoxia` sets the root logger to DEBUG, and so does every `eudoxia run`): the records go to a sink that discards them.
    Code behind `logger.isEnabledFor(...)` or inside log calls runs in a user's process, so it must run here."""
    import logging
    os.environ.setdefault(GUARD, "1")
    p = str(REPO)
    if p in sys.path:
        sys.path.remove(p)
    sys.path.insert(0, p)
    first = "eudoxia" not in sys.modules
    so = sys.stdout
    if first:
        import io
        sys.stdout = io.StringIO()          # basicConfig(stream=sys.stdout) must not capture the real stdout
    try:
        import eudoxia  # noqa: F401
    finally:
        sys.stdout = so
    got = Path(eudoxia.__file__).resolve().parent.parent
    if got != REPO:
        raise MachineryError(f"eudoxia imported from {got}, expected {REPO}")
    root = logging.getLogger()
    if os.environ.get("VERIF_LOGGING", "on") == "off":
        logging.disable(logging.CRITICAL)
    else:
        logging.disable(logging.NOTSET)
        for h in list(root.handlers):
            root.removeHandler(h)
        root.addHandler(logging.NullHandler())
        root.setLevel(logging.DEBUG)
    return eudoxia


# ---------------------------------------------------------------------------------------
# TLC
# ---------------------------------------------------------------------------------------

@dataclass
class TLCResult:
    rc: int
    out: str
    generated: int = 0
    distinct: int = 0
    depth: int = 0
    wall: float = 0.0
    violated: list = field(default_factory=list)     # names of violated invariants / properties
    error: str = ""
    cmd: str = ""
    coverage: dict = field(default_factory=dict)     # action name -> (distinct, total)

    @property
    def ok(self) -> bool:
        return self.rc == 0 and not self.violated and not self.error


_RE_STATES = re.compile(r"(\d+) states generated, (\d+) distinct states found")
_RE_DEPTH = re.compile(r"The depth of the complete state graph search is (\d+)")
_RE_INV = re.compile(r"Invariant (\S+) is violated")
_RE_PROP = re.compile(r"(?:Action|Temporal) propert(?:y|ies) (\S+)? ?(?:is|were) violated")
_RE_ASSERT = re.compile(r'The first argument of Assert evaluated to FALSE; the second argument was:\s*\n?"?([^"\n]*)"?')
_RE_COV = re.compile(r"^<(\w+) line \d+, col \d+ to line \d+, col \d+ of module (\w+)>: (\d+):(\d+)", re.M)


def run_tlc(module: str, cfg: str | Path, *, cwd: Path | None = None, workers: int | str = "auto",
            env: dict | None = None, extra: list | None = None, timeout: float = 3600,
            coverage: bool = False, deadlock: bool = False, jvm: list | None = None,
            heap: str = "6g", gc: str = "parallel") -> TLCResult:
    """Run TLC on spec/<module>.tla (or cwd/<module>.tla with spec/ as library)."""
    cwd = Path(cwd) if cwd else SPEC
    meta = scratch() / "meta"
    gcopt = ["-XX:+UseParallelGC"] if gc == "parallel" else ["-XX:+UseSerialGC", "-XX:ActiveProcessorCount=2"]
    cmd = ["java", *gcopt, f"-Xmx{heap}", "-Xss256m", f"-DTLA-Library={SPEC}"]
    cmd += list(jvm or [])
    cmd += ["-cp", JAVA_CP, "tlc2.TLC", "-metadir", str(meta), "-noGenerateSpecTE",
            "-config", str(cfg), "-workers", str(workers)]
    if not deadlock:
        cmd += ["-deadlock"]          # -deadlock DISABLES deadlock checking
    if coverage:
        cmd += ["-coverage", "1"]
    cmd += list(extra or [])
    cmd += [module]
    e = dict(os.environ)
    e.update(env or {})
    t0 = time.time()
    try:
        p = subprocess.run(cmd, cwd=cwd, env=e, capture_output=True, text=True, timeout=timeout)
        rc, out = p.returncode, p.stdout + p.stderr
    except subprocess.TimeoutExpired as ex:
        out = (ex.stdout or b"").decode("utf8", "replace") if isinstance(ex.stdout, bytes) else (ex.stdout or "")
        rc = 124
    shutil.rmtree(meta, ignore_errors=True)
    r = TLCResult(rc=rc, out=out, wall=time.time() - t0, cmd=" ".join(cmd))
    ms = _RE_STATES.findall(out)
    if ms:
        r.generated, r.distinct = int(ms[-1][0]), int(ms[-1][1])
    else:
        m2 = re.search(r"The number of states generated: (\d+)", out)       # -simulate mode
        if m2:
            r.generated = int(m2.group(1))
    md = _RE_DEPTH.search(out)
    if md:
        r.depth = int(md.group(1))
    r.violated = _RE_INV.findall(out)
    for m in _RE_PROP.finditer(out):
        r.violated.append(m.group(1) or "temporal")
    for m in _RE_ASSERT.finditer(out):
        r.violated.append("Assert:" + m.group(1).strip())
    if rc == 124:
        r.error = "timeout"
    elif rc not in (0, 12, 13) and not r.violated:
        # 12 = safety violation, 13 = liveness violation
        tail = "\n".join(out.strip().splitlines()[-25:])
        r.error = f"TLC exit {rc}: {tail}"
    if coverage:
        for m in _RE_COV.finditer(out):
            r.coverage[m.group(1)] = (int(m.group(3)), int(m.group(4)))
    return r


def tlc_counterexample(out: str) -> list:
    """The states of a TLC counterexample as dicts (best effort)."""
    states = []
    for m in re.finditer(r"^State \d+:[^\n]*\n((?:(?!^State \d+:|^\d+ states generated|^Error:|^The ).*\n?)+)", out, re.M):
        try:
            states.append(tlaval.parse_state_conj(m.group(1)))
        except Exception:
            states.append({"_raw": m.group(1)})
    return states


def sany(module_path: Path) -> tuple[bool, str]:
    cmd = ["java", f"-DTLA-Library={SPEC}", "-cp", JAVA_CP, "tla2sany.SANY", str(module_path.name)]
    p = subprocess.run(cmd, cwd=module_path.parent, capture_output=True, text=True)
    out = p.stdout + p.stderr
    ok = p.returncode == 0 and "rror" not in out
    return ok, out


# ---------------------------------------------------------------------------------------
# Trace validation: run a Trace*.tla monitor over ndjson shards
# ---------------------------------------------------------------------------------------

@dataclass
class MonitorResult:
    viols: list = field(default_factory=list)      # [tid, l, clause, detail...]
    lines: int = 0
    traces: int = 0
    wall: float = 0.0
    counters: dict = field(default_factory=dict)   # situation counters printed by the monitor
    notes: list = field(default_factory=list)      # DRIFT / informational tuples
    states: int = 0


def run_monitor(module: str, cfg: str, shard_files: list[Path], *, timeout: float = 3600,
                parallel: int | None = None, extra_env: dict | None = None) -> MonitorResult:
    """One TLC process per shard (workers=1 each); collects VIOL/SUMMARY/COUNT tuples."""
    import concurrent.futures as cf
    res = MonitorResult()
    t0 = time.time()
    shard_files = [f for f in shard_files if f.stat().st_size > 0]

    def one(f: Path):
        env = {"TRACE_FILE": str(f)}
        env.update(extra_env or {})
        r = run_tlc(module, SPEC / cfg, workers=1, env=env, timeout=timeout, heap="3g", gc="serial")
        return f, r

    with cf.ThreadPoolExecutor(max_workers=parallel or NCPU) as ex:
        for f, r in ex.map(one, shard_files):
            summ = tlaval.find_tuples(r.out, "SUMMARY")
            if r.rc != 0 or not summ:
                errs = [ln for ln in r.out.splitlines() if ln.startswith("Error:") or "xception" in ln][:8]
                tail = "\n".join(errs + r.out.strip().splitlines()[-6:])
                raise MachineryError(f"trace monitor {module} failed on {f} (rc={r.rc}):\n{tail}")
            s = summ[-1]
            d = dict(zip(s[1::2], s[2::2]))
            nlines = sum(1 for _ in open(f))
            if d.get("lines") != nlines:
                raise MachineryError(f"trace monitor {module} consumed {d.get('lines')} of {nlines} lines of {f}")
            res.lines += nlines
            res.traces += int(d.get("traces", 0))
            res.states += r.distinct
            v = tlaval.find_tuples(r.out, "VIOL")
            if len(v) != int(d.get("viol", -1)):
                raise MachineryError(f"trace monitor {module}: {len(v)} VIOL tuples parsed, summary says {d.get('viol')}")
            res.viols.extend(x[1:] for x in v)
            for c in tlaval.find_tuples(r.out, "COUNT"):
                for k, n in zip(c[1::2], c[2::2]):
                    res.counters[k] = res.counters.get(k, 0) + n
            res.notes.extend(x[1:] for x in tlaval.find_tuples(r.out, "DRIFT"))
            pre = tlaval.find_tuples(r.out, "PRECOND")
            if pre:
                # an input the monitor cannot decide (certificate rejected, stepping trace on a float boundary): the harness broke its obligation
                raise MachineryError(f"trace monitor {module}: precondition of the specification not met by the harness: {pre[:3]}")
    res.wall = time.time() - t0
    return res


def write_shards(traces, nshards: int, dirname: str = "shards") -> list[Path]:
    """traces: iterable of lists of event dicts (one list per trace).  Round-robin into ndjson shards."""
    d = Path(tempfile.mkdtemp(prefix=dirname + "-", dir=scratch()))          # never shared: not between calls, not between forked workers
    files = [d / f"shard{i:02d}.ndjson" for i in range(nshards)]
    fhs = [open(f, "w") for f in files]
    sizes = [0] * nshards
    for tr in traces:
        i = sizes.index(min(sizes))
        for ev in tr:
            fhs[i].write(json.dumps(ev, separators=(",", ":")) + "\n")
        sizes[i] += len(tr)
    for fh in fhs:
        fh.close()
    return files


# ---------------------------------------------------------------------------------------
# Known findings
# ---------------------------------------------------------------------------------------

def load_known() -> dict:
    f = VERIF / "known_findings.json"
    if not f.exists():
        return {"known": [], "fixed": []}
    return json.loads(f.read_text())


def match_known(prop: str, viol: dict, known: dict):
    """Return the known-finding entry whose signature matches this violation, or None.

    A signature is a dict of field -> expected value (or {"re": pattern}); every field must match the
    violation's `sig` dict.  Matching is never by property id alone."""
    for k in known.get("known", []):
        if k["property"] != prop:
            continue
        sig = k.get("signature") or {}
        if not sig:
            continue
        vs = viol.get("sig") or {}
        ok = True
        for fld, want in sig.items():
            have = vs.get(fld)
            if isinstance(want, dict) and "re" in want:
                if have is None or not re.search(want["re"], str(have)):
                    ok = False
                    break
            elif have != want:
                ok = False
                break
        if ok:
            return k
    return None


# ---------------------------------------------------------------------------------------
# Verdict + evidence
# ---------------------------------------------------------------------------------------

@dataclass
class Report:
    prop: str
    tier: str
    level: str = "model_checking"
    t0: float = field(default_factory=time.time)
    states: int = 0
    transitions: int = 0
    traces: int = 0
    evaluations: int = 0
    nontrivial: int = 0
    rule: str = ""
    samples: list = field(default_factory=list)
    extra: dict = field(default_factory=dict)
    assumptions: list = field(default_factory=list)
    violations: list = field(default_factory=list)   # dicts: clause, detail, replay(optional payload), sig
    model_runs: list = field(default_factory=list)
    exhaustive: bool = False

    def add_model(self, name: str, r: TLCResult, *, expect_ok=True):
        self.states += r.distinct
        self.transitions += r.generated
        self.model_runs.append({"config": name, "distinct_states": r.distinct, "states_generated": r.generated,
                                "depth": r.depth, "wall_s": round(r.wall, 1),
                                "violated": r.violated, "error": r.error[:300]})
        if r.error:
            raise MachineryError(f"model run {name}: {r.error}")

    def violation(self, clause: str, detail, replay=None, sig=None):
        self.violations.append({"clause": clause, "detail": detail, "replay": replay, "sig": sig or {}})

    def finish(self) -> int:
        known = load_known()
        OUT.mkdir(exist_ok=True)
        new, kf = [], {}
        for v in self.violations:
            k = match_known(self.prop, v, known)
            if k is not None:
                kf.setdefault(k["id"], [k, 0])[1] += 1
            else:
                new.append(v)
        for kid, (k, n) in sorted(kf.items()):
            print(f"KNOWN-FINDING: property={self.prop} {k['id']}: {k['text']} (seen {n}x in this run)")
        rc = 0
        shown = {}
        for v in new:
            shown.setdefault(v["clause"], []).append(v)
        for i, (clause, vs) in enumerate(sorted(shown.items())):
            v = vs[0]
            path = OUT / f"{self.prop}-{self.tier}-{i:02d}-{re.sub(r'[^A-Za-z0-9_.-]', '_', clause)[:50]}.json"
            payload = {"property": self.prop, "clause": clause, "detail": v["detail"], "count": len(vs),
                       "replay": v["replay"], "seed": seed(), "tier": self.tier}
            path.write_text(json.dumps(payload, indent=1, default=str))
            print(f"VIOLATION property={self.prop} replay={path}  clause={clause} count={len(vs)} detail={json.dumps(v['detail'], default=str)[:300]}")
            rc = 1
        cov = {
            "states": self.states, "transitions": self.transitions,
            "traces_validated_against_impl": self.traces,
            "evaluations": max(self.evaluations, 0), "distinct_nontrivial": self.nontrivial,
            "rule": self.rule, "samples": self.samples[:6] or ["(none)"],
            "model_runs": self.model_runs, "exhaustive": self.exhaustive,
        }
        cov.update(self.extra)
        ev = {
            "property_id": self.prop, "tier": self.tier, "seed": seed(), "level": self.level,
            "coverage": cov, "assumptions": self.assumptions, "wall_s": round(time.time() - self.t0, 2),
            "violations": len(new),
            "known_findings_seen": {k: n for k, (_, n) in kf.items()},
            "repo": str(REPO),
        }
        EVID.mkdir(parents=True, exist_ok=True)
        (EVID / f"{self.prop}.json").write_text(json.dumps(ev, indent=1, default=str) + "\n")
        print(f"{self.prop} [{self.tier}] states={self.states} transitions={self.transitions} traces={self.traces} "
              f"evaluations={self.evaluations} nontrivial={self.nontrivial} violations={len(new)} "
              f"known={sum(n for _, n in kf.values())} wall={ev['wall_s']}s")
        return rc


def run_apalache_inductive(module_dir: Path, module: str, init: str, indinit: str, inv: str, cinit: str = "ConstInit", timeout: float = 600) -> dict:
    """Discharge `inv` as an inductive invariant with Apalache: Init => Inv (length 0) and Inv & Next => Inv' (length 1)."""
    out = {}
    for name, i, length in (("base", init, 0), ("step", indinit, 1)):
        d = scratch()
        cmd = ["apalache-mc", "check", f"--cinit={cinit}", f"--init={i}", f"--inv={inv}", f"--length={length}", f"--out-dir={d}", f"{module}.tla"]
        t0 = time.time()
        try:
            p = subprocess.run(cmd, cwd=module_dir, capture_output=True, text=True, timeout=timeout)
        except subprocess.TimeoutExpired:
            raise MachineryError(f"apalache {name} obligation timed out")
        ok = p.returncode == 0 and "The outcome is: NoError" in p.stdout
        out[name] = {"ok": ok, "wall_s": round(time.time() - t0, 1)}
        if not ok:
            raise MachineryError(f"apalache could not discharge the {name} obligation of {inv}:\n" + p.stdout[-600:])
    return out
