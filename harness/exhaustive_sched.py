"""Exhaustive small-scope conformance (spec -> code): every INITIAL state that TLC explores for a MC_Sched_*.cfg configuration
(every workload: DAG shape x profile x priority per pipeline, x every combination of arrival ticks) is also run through the REAL
policy and the REAL executor, and that run is validated tick by tick by TraceExec (executor semantics, exact), TraceDrift (the
transcribed policy decides exactly as the real one) and TraceSched (the contracts of the properties).

The initial states come from TLC itself (CONSTRAINT DumpInit of MC_Sched.tla prints them), not from a re-implementation of the
configuration files.  The abstract segment profiles Sg(io, cpu, fixed, read, grow) are realised at 20 ticks per second, where one
I/O tick reads 1 GB: `io` ticks of reading, `cpu` ticks of constant-law CPU work (both a quarter tick off the boundary, the harness
convention for stepping traces), fixed memory in GB; pools of `cpucap` CPUs and `ramcap` GB."""
from __future__ import annotations

from fractions import Fraction as F

from . import common, simrec, tlaval
from .common import SPEC, MachineryError

TPS = 20
PRIO = {"B": "BATCH_PIPELINE", "Q": "QUERY", "I": "INTERACTIVE"}


def dump_inits(cfgname: str):
    src = (SPEC / f"MC_Sched_{cfgname}.cfg").read_text().splitlines()
    cfg = "\n".join(ln for ln in src if not ln.startswith(("INVARIANT", "PROPERTY"))) + "\nCONSTRAINT DumpInit\n"
    f = common.scratch() / f"MC_Sched_init_{cfgname}.cfg"
    f.write_text(cfg)
    r = common.run_tlc("MC_Sched", f, timeout=1200, workers=1)
    if r.rc != 0:
        raise MachineryError(f"TLC could not enumerate the initial states of MC_Sched_{cfgname}:\n" + "\n".join(r.out.splitlines()[-15:]))
    inits = [t[1:] for t in tlaval.find_tuples(r.out, "INIT")]
    if not inits or len(inits) != r.generated:
        raise MachineryError(f"MC_Sched_{cfgname}: {len(inits)} initial states parsed, TLC reports {r.generated} generated states")
    return inits


def realise(init, tid, cfgname, index=0):
    """One initial state of the model -> parameters, scripted arrivals and exact inputs of a real run."""
    common.import_repo()
    from eudoxia.workload import Pipeline
    from eudoxia.workload.pipeline import Segment
    from eudoxia.utils import Priority
    policy, cfg, maxtick, wl, arr = init
    Q = F(5, TPS)
    arrivals, exact = {}, {}
    for pi, pl in enumerate(wl):
        p = Pipeline(f"m{pi + 1}", getattr(Priority, PRIO[pl["prio"]]))
        ops = []
        for op in pl["ops"]:
            o = p.new_operator([ops[j - 1] for j in op["par"]] or None)
            for sg in op["segs"]:
                cpu = sg["cpu"][0] if isinstance(sg["cpu"], list) else sg["cpu"][1]
                base = F(4 * cpu + 1, 4 * TPS) if cpu > 0 else F(0)
                read = (4 * sg["io"] + 1) * Q if sg["io"] > 0 else F(0)
                fixed = None if sg["fixed"] < 0 else F(sg["fixed"])
                s = Segment(baseline_cpu_seconds=float(base), cpu_scaling="const", memory_gb=None if fixed is None else float(fixed), storage_read_gb=float(read))
                o.add_segment(s)
                exact[id(s)] = {"read": read, "fixed": fixed, "base": base}
            ops.append(o)
        arrivals.setdefault(arr[pi], []).append(p)
    name = policy
    if policy == "starter":
        from . import driver_sched
        name = driver_sched.ensure_starter()
    params = {"duration": float(F(maxtick, TPS)) + 1e-9, "ticks_per_second": TPS, "scheduler_algo": name, "num_pools": cfg["np"],
              "cpus_per_pool": cfg["cpucap"], "ram_gb_per_pool": cfg["ramcap"], "multi_operator_containers": bool(cfg["multi"]),
              "allow_memory_overcommit": bool(cfg["oc"])}
    events, stats, exc = simrec.record_run(params, tid=tid, workload=simrec.ScriptedWorkload(arrivals), exact=exact, mode="step", U=4 * TPS,
                                           meta={"driver": "X", "policy": name, "flavour": "model-init", "cfg": cfgname, "index": index, "seed": index})
    return events


def _chunk(args):
    cfgname, items = args
    return [realise(init, tid, cfgname, index) for tid, index, init in items]


def gen_traces(cfgnames, tid0=5 * 10**6):
    import multiprocessing as mp
    jobs, counts, tid = [], {}, tid0
    for c in cfgnames:
        inits = dump_inits(c)
        counts[c] = len(inits)
        items = [(tid + i, i, init) for i, init in enumerate(inits)]
        tid += len(inits)
        step = max(1, (len(items) + 31) // 32)
        jobs += [(c, items[i:i + step]) for i in range(0, len(items), step)]
    with common.pool(common.NCPU) as pool:
        out = pool.map(_chunk, jobs)
    return [tr for ch in out for tr in ch], counts


def replay_one(cfgname, index):
    inits = dump_inits(cfgname)
    return realise(inits[index], 0, cfgname, index)
