"""C02 (and the request-level half of C01): every edge of the COMPLETE Lifecycle.tla graph is
replayed on a real PipelineRuntimeStatus.  C01 iteration half: every DAG on <= 6 nodes is
built with the real Pipeline API and its iteration orders are validated by TraceDag.tla."""
from __future__ import annotations

import itertools
import json
from collections import deque

from . import common, tlaval
from .common import SPEC, MachineryError


def lifecycle_edges():
    r = common.run_tlc("Lifecycle", SPEC / "MC_Lifecycle_edges.cfg", workers=1, timeout=900, heap="3g", gc="serial")
    if not r.ok:
        raise MachineryError(f"Lifecycle edge dump failed: {r.error or r.violated}")
    edges = tlaval.find_tuples(r.out, "EDGE")
    return r, edges


def replay_lifecycle(rep, prop="C02"):
    """Model check Lifecycle.tla, dump its complete graph, replay every edge on the real object."""
    common.import_repo()
    from eudoxia.workload import Pipeline, OperatorState
    from eudoxia.utils import Priority

    rm = common.run_tlc("Lifecycle", SPEC / "MC_Lifecycle.cfg", timeout=900)
    rep.add_model("MC_Lifecycle", rm)
    if rm.violated:
        raise MachineryError(f"Lifecycle.tla violates {rm.violated}")
    r4 = common.run_tlc("Lifecycle", SPEC / "MC_Lifecycle4.cfg", timeout=900, workers=8)      # all 75 DAGs on four operators (invariants only)
    rep.add_model("MC_Lifecycle4", r4)
    if r4.violated:
        raise MachineryError(f"Lifecycle.tla (4 operators) violates {r4.violated}")
    r, edges = lifecycle_edges()
    if len(edges) != r.generated - 11 and len(edges) < 1000:
        raise MachineryError(f"edge dump incomplete: {len(edges)} edges, {r.generated} states generated")
    by_dag = {}
    for e in edges:
        _, n, par, ost, i, t, ok, ost2 = e
        key = (n, tuple(tuple(sorted(s)) for s in par))
        by_dag.setdefault(key, []).append((tuple(ost), i, t, ok, tuple(ost2)))
    nedges = nrefused = 0
    for (n, par), es in sorted(by_dag.items()):
        # BFS tree over accepted edges
        init = tuple(["pending"] * n)
        how = {init: None}
        adj = {}
        for (a, i, t, ok, b) in es:
            if ok:
                adj.setdefault(a, []).append((i, t, b))
        dq = deque([init])
        while dq:
            a = dq.popleft()
            for (i, t, b) in adj.get(a, []):
                if b not in how:
                    how[b] = (a, i, t)
                    dq.append(b)

        def path_to(st):
            out = []
            while how[st] is not None:
                a, i, t = how[st]
                out.append((i, t))
                st = a
            return out[::-1]

        def fresh():
            p = Pipeline("p", Priority.BATCH_PIPELINE)
            ops = []
            for k in range(n):
                ops.append(p.new_operator([ops[j - 1] for j in par[k]] or None))
            return p, ops

        for (a, i, t, ok, b) in es:
            if a not in how:
                raise MachineryError(f"state {a} of the TLC graph is not reachable over accepted edges")
            p, ops = fresh()
            st = p.runtime_status()
            for (pi, pt) in path_to(a):
                st.transition(ops[pi - 1], OperatorState(pt))
            got_a = tuple(st.operator_states[o].value for o in ops)
            if got_a != a:
                rep.violation("C02.ReplayPath", {"n": n, "par": par, "want": a, "got": got_a},
                              replay={"kind": "lifecycle", "n": n, "par": par, "state": a, "op": i, "target": t}, sig={"clause": "C02.ReplayPath"})
                continue
            can, reason = st.check_transition(ops[i - 1], OperatorState(t))
            raised = None
            try:
                st.transition(ops[i - 1], OperatorState(t))
            except Exception as ex:  # noqa: BLE001
                raised = type(ex).__name__
            got_b = tuple(st.operator_states[o].value for o in ops)
            counts = {s.value: c for s, c in st.state_counts.items()}
            hist = {s.value: sum(1 for x in got_b if x == s.value) for s in OperatorState}
            nedges += 1
            nrefused += (not ok)
            det = {"n": n, "par": par, "state": a, "op": i, "target": t, "spec_accepts": ok, "spec_next": b,
                   "code_raised": raised, "code_next": got_b, "check_transition": [can, reason], "counts": counts}
            rp = {"kind": "lifecycle", "n": n, "par": par, "state": a, "op": i, "target": t}
            if ok != (raised is None) or ok != bool(can):
                rep.violation("C02.Table", det, replay=rp, sig={"clause": "C02.Table"})
            elif got_b != b:
                rep.violation("C02.RefusalIsNoop" if not ok else "C02.Move", det, replay=rp, sig={"clause": "C02.Move"})
            elif counts != hist:
                rep.violation("C02.CountsAreHistogram", det, replay=rp, sig={"clause": "C02.CountsAreHistogram"})
            elif ok and nedges % 7 == 0:
                # growing the DAG afterwards (a new root, a new child) must leave every existing operator's state alone:
                # in particular a completed operator never changes state again
                extra1 = p.new_operator(None)
                extra2 = p.new_operator([ops[0]])
                # ... and neither may a repeated delivery of the same pipeline (the arrival is recorded once; a second attempt is refused or ignored)
                try:
                    p.runtime_status().record_arrival(0)
                    p.runtime_status().record_arrival(5)
                except Exception:  # noqa: BLE001
                    pass
                got_c = tuple(p.runtime_status().operator_states[o].value for o in ops)
                if got_c != b:
                    rep.violation("C02.CompletedFinal.grow", dict(det, after_growth=got_c), replay=rp, sig={"clause": "C02.CompletedFinal.grow"})
    rep.extra["lifecycle_edges_replayed"] = nedges
    rep.extra["lifecycle_refusals_replayed"] = nrefused
    rep.extra["lifecycle_dags"] = len(by_dag)
    rep.samples.append({"lifecycle_edge": {"n": 2, "par": [[], [1]], "state": ["completed", "assigned"], "op": 2, "target": "running", "accepted": True}})
    return nedges


def all_dags(maxn=6):
    for n in range(1, maxn + 1):
        choices = [[c for r in range(i + 1) for c in itertools.combinations(range(1, i + 1), r)] for i in range(n)]
        for par in itertools.product(*choices):
            yield n, par


def dag_traces(maxn=6):
    common.import_repo()
    from eudoxia.workload import Pipeline, OperatorState
    from eudoxia.utils import Priority
    lines = []
    for tid, (n, par) in enumerate(all_dags(maxn)):
        p = Pipeline(f"p{tid}", Priority.QUERY)
        ops = []
        for k in range(n):
            ops.append(p.new_operator([ops[j - 1] for j in par[k]] or None))
        pos = {id(o): k + 1 for k, o in enumerate(ops)}
        it1 = [pos[id(o)] for o in p.values]
        it2 = [pos[id(o)] for o in p.values]
        st = [pos[id(o)] for o in p.runtime_status().get_ops(list(OperatorState))]
        # traversals that are alive at the same time must not disturb each other: lock-step, nested, and a loop whose body
        # makes the pipeline build its runtime status (which itself walks the DAG)
        lock = [pos[id(a)] for a, b in zip(iter(p.values), iter(p.values)) if a is b]
        nested = []
        for a in p.values:
            inner = [pos[id(b)] for b in p.values]
            nested.append(pos[id(a)])
            if len(inner) != n:
                nested.append(0)
        q = Pipeline(f"q{tid}", Priority.QUERY)
        qops = []
        for k in range(n):
            qops.append(q.new_operator([qops[j - 1] for j in par[k]] or None))
        qpos = {id(o): k + 1 for k, o in enumerate(qops)}
        lazy = []
        for o in q.values:
            o.state()
            lazy.append(qpos[id(o)])
        # a builder that hands new_operator one scratch list and reuses it for the next operator: the list stays the caller's
        r = Pipeline(f"r{tid}", Priority.QUERY)
        rops, scratch = [], []
        for k in range(n):
            scratch.clear()
            scratch.extend(rops[j - 1] for j in par[k])
            rops.append(r.new_operator(scratch if scratch else None))
        scratch.clear()
        rpos = {id(o): k + 1 for k, o in enumerate(rops)}
        scr = [rpos[id(o)] for o in r.values]
        lines.append([{"tid": tid, "n": n, "par": [list(x) for x in par], "iter": it1, "iter2": it2, "status": st, "len": len(p.values),
                       "lock": lock, "nested": nested, "lazy": lazy, "scratch": scr}])
    return lines


def check_dag_iteration(rep, maxn=6):
    rm = common.run_tlc("DagIter", SPEC / "MC_DagIter.cfg", timeout=900, workers=8)
    rep.add_model("MC_DagIter", rm)
    if rm.violated:
        raise MachineryError(f"DagIter.tla violates {rm.violated}")
    traces = dag_traces(maxn)
    files = common.write_shards(traces, common.NCPU, "dagshards")
    mon = common.run_monitor("TraceDag", "TraceDag.cfg", files)
    ndags = mon.counters.get("dags", 0)
    if ndags != 33867 and maxn == 6:
        raise MachineryError(f"expected 33867 DAGs, validated {ndags}")
    for v in mon.viols:
        rep.violation(v[2], {"dag": v[3]}, replay={"kind": "dag", "detail": v[3]}, sig={"clause": v[2]})
    rep.extra["dags_validated"] = ndags
    rep.extra["dag_order_differs_from_model"] = mon.counters.get("order_differs_from_model", 0)
    if rep.extra["dag_order_differs_from_model"]:
        print(f"DRIFT: the real iterator's order differs from DagIter.tla's on {rep.extra['dag_order_differs_from_model']} DAGs (informational)")
    rep.samples.append({"dag": traces[40][0]})
    return ndags
