"""Binding self-test (`./check selftest`): recorded traces of the REAL code are corrupted in one field and the monitors
must report exactly that; the uncorrupted traces must be accepted.  This shows that the trace specifications constrain
the observations (a permissive monitor would accept the corrupted logs)."""
from __future__ import annotations

import copy
import json
import random

from . import common, driver_exec, driver_sched, driver_sim


def _mon(module, traces):
    files = common.write_shards(traces, 1, f"self{random.randrange(10**9)}")
    return common.run_monitor(module, module + ".cfg", files)


def corruptions():
    out = []
    tr = None
    for seed in range(1, 60):          # a driver-B trace with a result, a suspension and several ticks
        t = driver_exec.run_one(seed, 0, "susp")
        if sum(1 for e in t if e["ev"] == "exec") >= 8 and any(e["ev"] == "exec" and e["obs"]["results"] for e in t) and any(e["ev"] == "round" and e["sus"] for e in t):
            tr = t
            break
    execs = [i for i, e in enumerate(tr) if e["ev"] == "exec"]

    def mod(f):
        c = copy.deepcopy(tr)
        f(c)
        return c
    i3 = execs[3]
    out.append(("TraceExec", "free RAM of pool 1 off by one unit in one tick", mod(lambda c: c[i3]["obs"]["pools"][0].__setitem__("aram", c[i3]["obs"]["pools"][0]["aram"] + 1)),
                {"conf.C03.free", "C03.ConservationRam", "C10.AllocationKeptThenFreedOnce"}))
    out.append(("TraceExec", "reported usage of pool 1 off by one unit", mod(lambda c: c[i3]["obs"]["pools"][0].__setitem__("cons", c[i3]["obs"]["pools"][0]["cons"] + 1)),
                {"conf.C04.cons", "C04.ReportedIsSum"}))
    ir = next(i for i in execs if tr[i]["obs"]["results"])
    out.append(("TraceExec", "a result dropped from the log", mod(lambda c: c[ir]["obs"]["results"].pop()), {"conf.C09.results", "C09.Accounting"}))
    io = next(i for i in execs if any("running" in row for row in tr[i]["obs"]["ost"]))

    def flip(c):
        for row in c[io]["obs"]["ost"]:
            for j, v in enumerate(row):
                if v == "running":
                    row[j] = "pending"
                    return
    out.append(("TraceExec", "a running operator logged as pending", mod(flip), {"conf.C02.ost", "C02.LegalMoves"}))
    # scheduler contracts: one assignment's cpu request raised by one in a naive run
    st = driver_sched.run_scenario(11, 0, "naive", "mixed")
    ia = next(i for i, e in enumerate(st) if e["ev"] == "round" and e["asg"])
    c = copy.deepcopy(st)
    c[ia]["asg"][0]["cpu"] += 1
    out.append(("TraceSched", "an assignment asks for one cpu more than recorded", c, {"C17.WholePool", "C08.Admissible.NotOversold"}))
    # statistics: the returned assignment counter off by one
    sm = driver_sim.run_uncontended(5, 0)
    c = copy.deepcopy(sm)
    c[-1]["stats"]["assignments"] += 1
    out.append(("TraceSim", "returned statistics: assignments + 1", c, {"C06.Counters.assignments"}))
    c = copy.deepcopy(sm)
    c[-1]["pipes"][0][1] += 1
    out.append(("TraceSim", "recorded finish tick of the pipeline + 1", c, {"C06.FinishTick"}))
    # a caller that goes on after a refusal: the state the refused call left behind is checked, and the trace goes on after it
    rj = None
    for seed in range(1, 200):
        t = driver_exec.run_one(seed, 0, "reject")
        if any(e["ev"] == "raise" and "after" in e and any(p["suspending"] or p["active"] for p in e["after"]["pools"]) for e in t):
            rj = t
            break
    ia = next(i for i, e in enumerate(rj) if e["ev"] == "raise" and "after" in e and any(p["suspending"] or p["active"] for p in e["after"]["pools"]))
    c = copy.deepcopy(rj)
    c[ia]["after"]["pools"][0]["acpu"] += 1
    out.append(("TraceExec", "free cpu after a refused call off by one", c, {"conf.C03.free", "C03.ConservationCpu"}))
    c = copy.deepcopy(rj)
    c[ia].pop("after")
    del c[ia + 1:-1]          # the old behaviour: the trace ends at the refusal (still accepted)
    out.append(("TraceExec", "(control) the same trace cut at the refusal", c, set()))
    # a kill from outside: the operators it fails are in the log
    kl = None
    for seed in range(1, 400):
        t = driver_exec.run_one(seed, 0, "susp")
        if any(e["ev"] == "kill" for e in t):
            kl = t
            break
    ik = next(i for i, e in enumerate(kl) if e["ev"] == "kill")
    c = copy.deepcopy(kl)
    c.pop(ik)
    out.append(("TraceExec", "the kill event removed from the log", c, {"C02.RefuseIllegal", "C02.LegalMoves", "conf.C02.ost.round", "conf.C02.ost", "conf.C09.results", "C09.Accounting", "conf.C05.ctr", "conf.C02.ost.pre"}))
    # a refused construction of an Assignment: an operator taken before the refusal is logged as handed back to pending
    rf = None
    for seed in range(1, 3000):
        t = driver_exec.run_one(seed, 0, "reject" if seed % 2 else "mixed")
        last = next((e for e in reversed(t) if e["ev"] == "round"), None)
        if last is not None and last.get("raised"):
            prev = next((e for e in reversed(t[:t.index(last)]) if "obs" in e and "ost" in e["obs"]), None)
            if prev and any(x == "failed" and y == "assigned" for a, b in zip(prev["obs"]["ost"], last["obs"]["ost"]) for x, y in zip(a, b)):
                rf, irf, prf = t, t.index(last), prev
                break
    if rf is None:
        raise common.MachineryError("selftest: no refused construction that had already taken a failed operator in 3000 seeds")
    c = copy.deepcopy(rf)
    done = False
    for pi, (a, b) in enumerate(zip(prf["obs"]["ost"], c[irf]["obs"]["ost"])):
        for oi, (x, y) in enumerate(zip(a, b)):
            if x == "failed" and y == "assigned" and not done:
                c[irf]["obs"]["ost"][pi][oi] = "pending"
                done = True
    out.append(("TraceExec", "refused construction: failed operator logged as handed back to pending", c, {"C02.LegalMoves"}))
    base = [("TraceExec", tr), ("TraceSched", st), ("TraceSim", sm), ("TraceExec", rj), ("TraceExec", kl), ("TraceExec", rf)]
    return base, out


def run():
    common.import_repo()
    base, cases = corruptions()
    ok = True
    for module, tr in base:
        m = _mon(module, [tr])
        print(f"  {module}: uncorrupted trace of {len(tr)} events -> {len(m.viols)} clause(s) fired")
        ok &= not m.viols
    for module, what, tr, expect in cases:
        m = _mon(module, [tr])
        fired = {v[2] for v in m.viols}
        good = bool(fired & expect) if expect else not fired
        ok &= good
        print(f"  {module}: {what:60s} -> fired {sorted(fired)}  {'OK' if good else 'MISSING ' + str(sorted(expect))}")
    print("selftest " + ("passed: every corrupted field is reported, the recorded traces are accepted" if ok else "FAILED"))
    return 0 if ok else 2
