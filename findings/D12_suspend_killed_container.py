"""D12 (C10 / C02): a Suspend for a container that was killed from outside is accepted once its failed operator has been assigned
again in the same round: the dead container goes through a write-out and the operator belongs to two live containers.
Exit 1 if the defect shows, 0 otherwise.  Run as:  PYTHONPATH=<tree> python D12_suspend_killed_container.py"""
import logging
logging.disable(logging.CRITICAL)
import sys
from eudoxia.executor import Executor
from eudoxia.executor.assignment import Assignment, Suspend
from eudoxia.workload.pipeline import Pipeline, Segment
from eudoxia.utils import Priority

ex = Executor(num_pools=1, cpus_per_pool=4, ram_gb_per_pool=100, ticks_per_second=1, allow_memory_overcommit=False, multi_operator_containers=True)
p = Pipeline("p", Priority.BATCH_PIPELINE)
a = p.new_operator(); a.add_segment(Segment(baseline_cpu_seconds=1, cpu_scaling="const", memory_gb=1, storage_read_gb=0))
b = p.new_operator([a]); b.add_segment(Segment(baseline_cpu_seconds=3, cpu_scaling="const", memory_gb=1, storage_read_gb=0))
x = p.new_operator(); x.add_segment(Segment(baseline_cpu_seconds=5, cpu_scaling="const", memory_gb=1, storage_read_gb=0))
p.runtime_status()
ex.run_one_tick([], [Assignment([a, b], 1, 10.0, p.priority, 0, "p")])
c = ex.pools[0].active_containers[0]          # a is done, b not started: the container is at an operator boundary
c.kill("evicted")                             # somebody kills it; b is FAILED now and may be assigned again
retry = Assignment([x, b], 1, 10.0, p.priority, 0, "p")          # x runs first, b waits inside the new container
try:
    ex.run_one_tick([Suspend(c.container_id, 0)], [retry])
except AssertionError as e:
    if "cannot be suspended" in str(e):
        print("the Suspend of the dead container was refused:", e)
        sys.exit(0)
    print("the call raised:", e)
pool = ex.pools[0]
print("accepted: suspending", [x.container_id for x in pool.suspending_containers], "active", [x.container_id for x in pool.active_containers], "b is", b.state())
sys.exit(1)
