#!/usr/bin/env python3
"""Markdown table of the seeded changes under /verif/seeded and which checks caught them (from meta.json)."""
import json, glob, os
rows = []
for d in sorted(glob.glob('/verif/seeded/*/')):
    m = json.load(open(d + 'meta.json'))
    name = os.path.basename(d.rstrip('/'))
    need = " ".join(m.get("needs_to_manifest", [])[:3])[:230].replace("|", "/")
    caught = m.get("caught_by_latest", [])
    first = ""
    for p, vs in m.get("checks", {}).items():
        if vs and vs[-1]["rc"] == 1 and "clause=" in vs[-1]["first_line"]:
            first = vs[-1]["first_line"].split("clause=")[1].split(" ")[0]
            if p == m["breaks_property"]:
                break
    rows.append(f"| {name} | {need} | {', '.join(caught) or '**not caught**'} | {first} |")
print("| seeded change | what it is / what it needs | caught by | first clause |\n|---|---|---|---|")
print("\n".join(rows))
