#!/usr/bin/env python3
"""Writes MANIFEST.json from the table below (single place to keep it current)."""
import json, pathlib
ROOT = pathlib.Path(__file__).resolve().parent.parent
props = [json.loads(l) for l in open(ROOT / "properties.jsonl")]

EXEC_NOTE = ("Trusted: TLC, CommunityModules Json/IOUtils, the logic-free projection harness/rec.py. Exhaustive only for the small constants of the "
             "MC_*.cfg files; beyond them the evidence is validated executions of the real code. Stepping traces use decimal-grid inputs off tick "
             "boundaries; exact-limit cases are accepted on either side as the statement allows.")
CLAIMED = {
 "C01": dict(text="TLC checks Eudoxia.tla (executor under the UNIVERSAL scheduler: any command batch, admissible or not) for parents-before-start on all small DAG shapes x packings x OOM/suspend interleavings, and DagIter.tla on all 33 867 DAGs with <= 6 nodes; bound to the code by (a) every tick of driver-B runs of the real Executor stepped by TraceExec.tla (the spec's own dependency check decides whether a start must be rejected) and (b) the real iterator/runtime-status orders of all 33 867 DAGs validated by TraceDag.tla.",
             technique="TLA+ model checking (TLC) + trace validation of the real Executor and DAG iterator against the spec", ref="§5 C01", engine="Eudoxia.tla+TraceExec.tla, DagIter.tla+TraceDag.tla"),
 "C02": dict(text="TLC explores the COMPLETE graph of Lifecycle.tla (all DAGs on <= 3 operators, all 18 requests in every state) and every one of its 21 624 edges (17 020 refusals) is replayed on a real PipelineRuntimeStatus (accept/refuse, next state, counts); whole-simulation histories are checked by Eudoxia.tla invariants (legal moves, completed final, one live container) and by TraceExec.tla on every event of driver-B runs.",
             technique="TLA+ model checking (TLC) + replay of every model edge into the real code + trace validation", ref="§5 C02", engine="Lifecycle.tla, Eudoxia.tla+TraceExec.tla"),
 "C03": dict(text="Conservation, non-negativity, reject-as-a-whole and freed-exactly-once are invariants/step assertions of Eudoxia.tla under the universal scheduler (overcommit on/off, 1- and multi-tick suspensions, two assignments per round); TraceExec.tla evaluates conservation on the OBSERVED pool state of every tick of driver-B runs and compares free CPU/RAM with the spec's prediction.",
             technique="TLA+ model checking (TLC) + trace validation of the real Executor", ref="§5 C03", engine="Eudoxia.tla+TraceExec.tla"),
 "C04": dict(text="Within-allocation, pool-within-capacity, reported-usage-is-sum and kill-justified are invariants of Eudoxia.tla (incl. a pressure config with multi-victim kills); TraceExec.tla checks them on every observed tick (reported usage read after suspensions and same-tick kill+completion) with the demand taken from the spec, not from the code.",
             technique="TLA+ model checking (TLC) + trace validation of the real Executor", ref="§5 C04", engine="Eudoxia.tla+TraceExec.tla"),
 "C05": dict(text="The time/memory model is the Advance operator of EudoxiaOps.tla (model-checked in Eudoxia.tla, incl. zero-tick and trailing-empty segments) and the exact BigNat predicates of Timing.tla; bound by (a) tick-by-tick conformance of container memory/progress in driver-B traces and (b) TraceTiming.tla on thousands of single containers on a real ResourcePool at tick rates 1..100000, all seven laws, 1..64 cpus, with per-segment tick certificates re-decided in TLA+ (sqrt by squaring, log by a bounded table) and the float band made explicit.",
             technique="TLA+ model checking (TLC) + closed-form trace validation with exact BigNat arithmetic in TLA+", ref="§5 C05", engine="Timing.tla+TraceTiming.tla, EudoxiaOps.tla+TraceExec.tla"),
 "C09": dict(text="One container per accepted assignment, write-once outcome, result in the end tick, success iff all completed, failure shape, accounting and unknown-pool rejection are invariants/action properties/step assertions of Eudoxia.tla; TraceExec.tla compares results and container lists of every tick of driver-B runs (incl. out-of-range pool ids, simultaneous completion+kill+suspension on several pools) and keeps the accounting identity over the whole trace.",
             technique="TLA+ model checking (TLC) + trace validation of the real Executor", ref="§5 C09", engine="Eudoxia.tla+TraceExec.tla"),
 "C10": dict(text="Only-at-boundary, else-rejected, duration max(1, floor(ram/20*tps)), no progress/keeps allocation, freed exactly, work intact are invariants/action properties of Eudoxia.tla where the universal scheduler tries a Suspend on every container in every round; driver B (mode susp) suspends real containers at every boundary with write-outs of 1..many ticks and TraceExec.tla follows the countdown, the lists and the freed resources tick by tick (a length exactly on a tick boundary may be one shorter: band).",
             technique="TLA+ model checking (TLC) + trace validation of the real Executor", ref="§5 C10", engine="Eudoxia.tla+TraceExec.tla"),
 "C11": dict(text="Stated declaratively over the killed set (ties admit any order): victims are candidates, no kill if it fits, highest score first (u^2/a compared by exact cross-multiplication in BigNat), every kill needed, stop when it fits - invariants of Eudoxia.tla on configs with multi-victim kills, and evaluated by TraceExec.tla on the failed results of every over-capacity tick of driver-B pressure runs against the SPEC's per-container demand.",
             technique="TLA+ model checking (TLC) + trace validation of the real OOM killer", ref="§5 C11", engine="Eudoxia.tla+TraceExec.tla"),
}
NOT_YET = "check not built yet in this session (DESIGN.md §9 build order); will be claimed when its TLA+ spec and conformance harness land"

checks, na, engines = [], [], {}
for p in props:
    pid = p["id"]
    c = CLAIMED.get(pid)
    if not c:
        na.append({"property_id": pid, "reason": NOT_YET})
        continue
    checks.append({
        "property_id": pid,
        "quick_cmd": f"./check {pid} --tier quick",
        "thorough_cmd": f"./check {pid} --tier thorough",
        "evidence_file": f"/verif/evidence/{pid}.json",
        "replay_cmd_template": f"./check {pid} --replay {{path}}",
        "engine": c["engine"],
        "level_claimed": {"category": "model_checking", "text": c["text"], "design_ref": c["ref"]},
        "level_note": c.get("note", EXEC_NOTE),
        "technique": c["technique"],
    })
    engines.setdefault(c["engine"], []).append(pid)

m = {
 "version": 1,
 "setup_cmd": "cd /verif && /venv/bin/python -m compileall -q harness >/dev/null && ./setup.sh",
 "hooks": {"guard": "EUDOXIA_VERIF",
           "enable": "none needed: the harness observes through public attributes and wraps objects on its own side; EUDOXIA_VERIF=1 is exported by ./check and reserved for future hooks",
           "baseline_off_cmd": "cd /repo && env -u EUDOXIA_VERIF /venv/bin/python -m pytest -ra -q -p no:cacheprovider --timeout=900 --continue-on-collection-errors",
           "source_commits": [], "add_only": True},
 "engines": [{"name": k, "path": "/verif/spec", "serves_properties": v, "kind_free_text": "TLA+ specification checked with TLC, bound to the implementation by trace validation / replay (harness/)"} for k, v in engines.items()],
 "checks": checks,
 "notes": "See DESIGN.md. ./check <id> --tier quick|thorough; exit 0 held, 1 VIOLATION, 2 machinery failure. Known findings: known_findings.json.",
 "not_applicable": na,
}
json.dump(m, open(ROOT / "MANIFEST.json", "w"), indent=1)
print(f"{len(checks)} claimed, {len(na)} not claimed")
