#!/usr/bin/env python3
"""Writes MANIFEST.json from the table below (single place to keep it current)."""
import json, pathlib
ROOT = pathlib.Path(__file__).resolve().parent.parent
props = [json.loads(l) for l in open(ROOT / "properties.jsonl")]

EXEC_NOTE = ("Trusted: TLC, CommunityModules Json/IOUtils, the logic-free projection harness/rec.py. Exhaustive only for the small constants of the "
             "MC_*.cfg files; beyond them the evidence is validated executions of the real code. Stepping traces use decimal-grid inputs off tick "
             "boundaries; exact-limit cases are accepted on either side as the statement allows.")
CLAIMED = {
 "C01": dict(text="TLC checks Eudoxia.tla (executor under the UNIVERSAL scheduler: any command batch, admissible or not) for parents-before-start on all small DAG shapes x packings x OOM/suspend interleavings, and DagIter.tla on all 33 867 DAGs with <= 6 nodes; bound to the code by (a) every tick of driver-B runs of the real Executor stepped by TraceExec.tla (the spec's own dependency check decides whether a start must be rejected) and (b) the real iterator/runtime-status orders of all 33 867 DAGs validated by TraceDag.tla.",
             technique="TLA+ model checking (TLC) + trace validation of the real Executor and DAG iterator against the spec", ref="§5 C01", engine="Eudoxia.tla+TraceExec.tla, DagIter.tla+TraceDag.tla"),
 "C02": dict(text="TLC explores the COMPLETE graph of Lifecycle.tla (all DAGs on <= 3 operators, all 18 requests in every state) and every one of its 21 624 edges (17 020 refusals) is replayed on a real PipelineRuntimeStatus (accept/refuse, next state, counts); whole-simulation histories are checked by Eudoxia.tla invariants (legal moves, completed final, one live container) and by TraceExec.tla on every event of driver-B runs.",
             technique="TLA+ model checking (TLC) + replay of every model edge into the real code + trace validation", ref="§5 C02", engine="Lifecycle.tla, Eudoxia.tla+TraceExec.tla"),
 "C03": dict(text="Conservation, non-negativity, reject-as-a-whole and freed-exactly-once are invariants/step assertions of Eudoxia.tla under the universal scheduler (overcommit on/off, 1- and multi-tick suspensions, two assignments per round); TraceExec.tla evaluates conservation on the OBSERVED pool state of every tick of driver-B runs and compares free CPU/RAM with the spec's prediction.",
             technique="TLA+ model checking (TLC) + trace validation of the real Executor", ref="§5 C03", engine="Eudoxia.tla+TraceExec.tla"),
 "C04": dict(text="Within-allocation, pool-within-capacity, reported-usage-is-sum and kill-justified are invariants of Eudoxia.tla (incl. a pressure config with multi-victim kills); TraceExec.tla checks them on every observed tick (reported usage read after suspensions and same-tick kill+completion) with the demand taken from the spec, not from the code.",
             technique="TLA+ model checking (TLC) + trace validation of the real Executor", ref="§5 C04", engine="Eudoxia.tla+TraceExec.tla"),
 "C05": dict(text="The time/memory model is the Advance operator of EudoxiaOps.tla (model-checked in Eudoxia.tla, incl. zero-tick and trailing-empty segments) and the exact BigNat predicates of Timing.tla; bound by (a) tick-by-tick conformance of container memory/progress in driver-B traces and (b) TraceTiming.tla on thousands of single containers on a real ResourcePool at tick rates 1..100000, all seven laws, 1..64 cpus, with per-segment tick certificates re-decided in TLA+ (sqrt by squaring, log by a bounded table) and the float band made explicit.",
             technique="TLA+ model checking (TLC) + closed-form trace validation with exact BigNat arithmetic in TLA+", ref="§5 C05", engine="Timing.tla+TraceTiming.tla, EudoxiaOps.tla+TraceExec.tla"),
 "C09": dict(text="One container per accepted assignment, write-once outcome, result in the end tick, success iff all completed, failure shape, accounting and unknown-pool rejection are invariants/action properties/step assertions of Eudoxia.tla; TraceExec.tla compares results and container lists of every tick of driver-B runs (incl. out-of-range pool ids, simultaneous completion+kill+suspension on several pools) and keeps the accounting identity over the whole trace.",
             technique="TLA+ model checking (TLC) + trace validation of the real Executor", ref="§5 C09", engine="Eudoxia.tla+TraceExec.tla"),
 "C10": dict(text="Only-at-boundary, else-rejected, duration max(1, floor(ram/20*tps)), no progress/keeps allocation, freed exactly, work intact are invariants/action properties of Eudoxia.tla where the universal scheduler tries a Suspend on every container in every round; driver B (mode susp) suspends real containers at every boundary with write-outs of 1..many ticks and TraceExec.tla follows the countdown, the lists and the freed resources tick by tick (a length exactly on a tick boundary may be one shorter: band).",
             technique="TLA+ model checking (TLC) + trace validation of the real Executor", ref="§5 C10", engine="Eudoxia.tla+TraceExec.tla"),
 "C11": dict(text="Stated declaratively over the killed set (ties admit any order): victims are candidates, no kill if it fits, highest score first (u^2/a compared by exact cross-multiplication in BigNat), every kill needed, stop when it fits - invariants of Eudoxia.tla on configs with multi-victim kills, and evaluated by TraceExec.tla on the failed results of every over-capacity tick of driver-B pressure runs against the SPEC's per-container demand.",
             technique="TLA+ model checking (TLC) + trace validation of the real OOM killer", ref="§5 C11", engine="Eudoxia.tla+TraceExec.tla"),
"C06": dict(text="The main loop's bookkeeping (created/assignment/suspension/failure/success counters, completion sweep that only looks in ticks with a result, finish tick) is a set of ghost variables of Sched.tla with invariants C06_NotWhileUnfinished / C06_FinishTick / C06_CompleteOnce / C06_Counters, model-checked for the transcribed policies over all small workloads; TraceSim.tla recounts every returned statistic (per-priority arrivals/completions, mean and numpy-linear p99 latency as exact rationals, throughput, container p99, counters, NaN for empty classes, uncontended duration) from the recorded events of run_simulator runs over random valid configurations and compares with what the run returned.",
             technique="TLA+ model checking (TLC) of the main-loop bookkeeping + independent recount of recorded runs in TLA+", ref="§5 C06", engine="Sched.tla, TraceSim.tla",
             note="Trusted: TLC, Json/IOUtils, the recording wrappers of harness/simrec.py. Latency statistics are compared in exact integer arithmetic with a tolerance of 2 micro-seconds."),
 "C07": dict(text="Determinism of the composed specification (a fixed scenario of Sched.tla has exactly one behaviour: TLC reports states = depth) plus equality, decided in TraceEq.tla, of the canonical behaviours (arrivals, decisions, results per tick, statistics; ids renumbered by creation order) of the same simulation run twice in one process after other simulations and in fresh interpreters under different PYTHONHASHSEED values; arrival sub-behaviour equal under other scheduler/executor settings and different under another seed. The specification contributes least here (stated in DESIGN §5): the verdict is equality of observed behaviours under the model's projection.",
             technique="TLA+ determinism check (TLC) + trace equality under the model's projection across processes and hash seeds", ref="§5 C07", engine="Sched.tla, TraceEq.tla",
             note="Trusted: TLC, Json/IOUtils, harness/driver_det.canonical (projection). Hyperproperty over pairs of runs: covered for the sampled parameter sets only."),
 "C08": dict(text="crash = \"\" and the admissibility contract (no pool oversold, no double or out-of-order assignment, only suspendable containers suspended) are invariants of Sched.tla for the transcribed naive, overbook, priority and priority-pool policies over all small workloads (witness runs show that suspensions and retries are reachable); every round of seeded scenarios through the REAL policy functions inside the unmodified run_simulator is validated by TraceSched.tla (contract on the observed pre-state) and STEPPED by TraceExec.tla (any raise or any command the executor specification rejects is a violation); random valid configurations incl. corner durations, 1-cpu/sub-GB pools and awkward probability triples come from the C06 driver.",
             technique="TLA+ model checking (TLC) of the transcribed policies + trace validation of the real policies", ref="§5 C08", engine="Sched.tla+SchedContracts.tla, TraceSched.tla, TraceExec.tla"),
 "C12": dict(text="Strict priority, work conservation, FIFO first container per class, and the preemption rules (only priority, victim not QUERY and at a boundary, only while a query waits, at most one per waiting query job) are contracts of SchedContracts.tla: invariants of the transcribed priority and priority-pool policies in Sched.tla (TLC finds the lost-work defect when the requeueShortSuspension switch is off; witnesses show suspensions/contention reachable) and clauses evaluated by TraceSched.tla on every round of real runs with contention and 1-tick and multi-tick suspensions. 'Offered again' follows from work conservation at the rounds after the suspension ended.",
             technique="TLA+ model checking (TLC) of the transcribed policies + contract validation on traces of the real scheduler", ref="§5 C12", engine="Sched.tla+SchedContracts.tla, TraceSched.tla"),
 "C16": dict(text="Pool-of-priority, no suspensions, retry-together and half-pool cut-off are contracts (ghost history: last failed container per pipeline, abandoned operators): invariants of the transcribed priority-pool policy over all small mixed-priority workloads (witness: retries reachable) and clauses of TraceSched.tla on real runs with OOM-prone DAG pipelines of all three priorities.",
             technique="TLA+ model checking (TLC) of the transcribed policy + contract validation on traces of the real scheduler", ref="§5 C16", engine="Sched.tla+SchedContracts.tla, TraceSched.tla"),
 "C17": dict(text="One container per pool and round, whole free pool, FIFO first container, no suspension, no work after a failure, single ready operator in single-operator mode: invariants of the transcribed naive policy in Sched.tla (multi-pool, both container modes, DAG shapes with failures) and clauses of TraceSched.tla on real runs.",
             technique="TLA+ model checking (TLC) of the transcribed policy + contract validation on traces of the real scheduler", ref="§5 C17", engine="Sched.tla+SchedContracts.tla, TraceSched.tla"),
 "C18": dict(text="Shape (one ready operator, one cpu, whole-pool RAM), cpu-bound container count, work conservation after a triggered round and three-strikes abandonment: invariants of the transcribed overbook policy composed with the executor under overcommit (pool-level kills included) and clauses of TraceSched.tla on real runs, which have no test at all in the repository.",
             technique="TLA+ model checking (TLC) of the transcribed policy + contract validation on traces of the real scheduler", ref="§5 C18", engine="Sched.tla+SchedContracts.tla, TraceSched.tla"),
 "C13": dict(text="The replay cursor is a state machine (TraceReplay.tla) checked over all sorted arrival sequences on a small grid; the mapping arrival -> tick is ReplayOps.CeilOK, an exact BigNat predicate that re-decides the harness's certificate ceil(a*tps). TraceReplayCheck.tla validates replays of thousands of CSV files (on/off grid, non-decimal rates, up to millions of ticks, several pipelines per arrival, arrivals beyond the end) by the real reader and gentrace round trips. The known finding D8 (float tick mapping) is matched by signature only.",
             technique="TLA+ model checking (TLC) of the cursor + trace validation of the real reader with exact BigNat arithmetic", ref="§5 C13", engine="TraceReplay.tla+ReplayOps.tla, TraceReplayCheck.tla",
             note="Trusted: TLC, Json/IOUtils. Known finding D8 is listed in known_findings.json and matched by (exactly one tick late AND IEEE evaluation of a/(1.0/tps) exceeds the exact tick)."),
 "C14": dict(text="Parse/Unparse of CsvOps.tla: TLC checks Parse(Unparse(w)) = w, Unparse(Parse(r)) = r and refusal of eight rule mutations for all 97 656 small workloads; TraceCsv.tla checks that what the real writer wrote is Unparse of the workload, that the real reader agrees with Parse on those rows and returns the workload, that re-writing reproduces the rows, and that nine malformed variants are refused (any exception) while the untouched file is accepted.",
             technique="TLA+ model checking (TLC) of the format + trace validation of the real writer/reader", ref="§5 C14", engine="CsvFormat.tla+CsvOps.tla, TraceCsv.tla",
             note="Numeric cells are canonicalised to repr(float(text)) by the harness: numeric text fidelity is Python's float round trip, outside what TLA+ adds."),
 "C15": dict(text="The arrival clock (event exactly wait+1 ticks after the previous one, wait = draw if positive else the mean) is a state machine checked by TLC; TraceGen.tla validates runs of the real generator whose RNG is wrapped in a logging proxy: counts, fresh ids, query/chain shapes, first-operator prototype, priority and operator count as dictated by the draws, later prototypes by the documented thresholds, and the ARGUMENTS of the draws (configured probabilities, num_operators, waiting mean, cpu_io_ratio); a same-seed ratio 0 / ratio 1 pair decides 'raising cpu_io_ratio shifts the mix' independently of the call pattern.",
             technique="TLA+ model checking (TLC) of the arrival clock + trace validation of the real generator through an RNG proxy", ref="§5 C15", engine="Generator.tla+GenOps.tla, TraceGen.tla",
             note="Distributional sentences are decided through draw arguments and a large-effect metamorphic pair, not by sampling statistics."),
 "C19": dict(text="The bridge protocol (known / reported-complete sets, poll clock) is RestBridge.tla, model-checked; TraceRest.tla validates every request of runs driven over a loop-back HTTP server against the ground truth recorded at that moment (results, pool and container figures, operator states, key sets, no segment values), the protocol promises (call on event, idle spacing, disjoint, known exactly, complete exactly once), the reply against the executed commands, and the statistics against an in-process run issuing the same decisions.",
             technique="TLA+ model checking (TLC) of the protocol + trace validation of the real bridge over loop-back HTTP", ref="§5 C19", engine="RestBridge.tla, TraceRest.tla",
             note="The Go reference scheduler is not executed (no Go toolchain): a Python port of go/naive and a scripted universal scheduler are the decision sources."),
 "C20": dict(text="snap and jitter as row transformations over exact rationals (Tools.tla): never up, less than one tick, on-grid unchanged, idempotent, bounds, ascending stable order - checked by TLC on a grid; TraceTools.tla validates runs of the real snap_command / jitter_command / _sensitivity_task on generated files with exact BigNat arithmetic on the decimal texts (floor certificates re-checked), incl. snapping twice, equal seeds, and sample i = gentrace(start_seed + i).",
             technique="TLA+ model checking (TLC) + trace validation of the real tools with exact BigNat arithmetic", ref="§5 C20", engine="Tools.tla, TraceTools.tla"),
}
NOT_YET = "check not built yet in this session (DESIGN.md §9 build order); will be claimed when its TLA+ spec and conformance harness land"

checks, na, engines = [], [], {}
# what was added after the first full pass (DESIGN 10.12, 10.13): appended to the level text of each property
ADDED = {
 "C01": " Also: whole run_simulator runs with one operator per container (branchy DAGs, merges of 40-300 operators), builders whose parent lists the caller goes on using (the specification's workload is what the builder meant).",
 "C02": " Also: refusals after which the caller goes on (GoOn), kills from outside (ExtKill), and the operator states as the caller finds them after run_simulator has returned.",
 "C03": " Also: the state a refused call leaves behind when the caller goes on (action GoOn, one pool), kills from outside, whole simulations under the priority policy with float RAM sizes and the simulator's own memory report.",
 "C04": " Also: GoOn / ExtKill, memory moving in quarter-megabyte steps (10 240 and 81 920 ticks per second), whole simulations over random valid parameter sets (tick rates up to 100 000) and under priority with overcommit.",
 "C05": " Also: the same Segment object used twice in an operator, assignments whose operator order differs from the iteration order, optional Assignment flags.",
 "C09": " Also: actions GoOn and ExtKill (Container.kill from outside: failure result naming that error by the next tick, allocation returned once) in the model, in driver B, and replayed spec -> code.",
 "C10": " Also: TraceTiming.CheckSusp decides the length of a write-out exactly at any tick rate up to 100 000 per second (rates that do not divide a power of ten included); a Suspend of a container killed from outside is refused (defect D12, fixed).",
 "C11": " Also: pools of a few dozen megabytes at 10 240 / 81 920 ticks per second, where absolute tolerances and rounded scores change the victims.",
 "C06": " Also: more than 10 000 completions of one class (lean recording), tick rates of 200-1000, container priorities that differ from the pipeline's, runs that end inside a write-out, kills from outside.",
 "C07": " Also: parameter sets with shuffled key order (run_simulator builds the generator itself), seed 0 against the default seed, branchy DAG scenarios under hash seeds.",
 "C08": " Also: EVERY initial state TLC generates for the MC_Sched configurations is run through the real policy and executor (exhaustive_sched.py); the starter the documented way through the command line (init -s, run -i); kills from outside in the policy model (KillFromOutside) and in the runs; merges of hundreds of operators; pools filled to the last CPU.",
 "C12": " Also: every initial state of the model configurations run in the real code; query herds; generator-driven runs over random valid parameter sets; kills from outside.",
 "C16": " Also: every initial state of the model configuration run in the real code; generator-driven runs with RAM sizes such as 12.3 GB; pools filled to the last CPU with a retry that asks for exactly what is left.",
 "C17": " Also: every initial state of the model configurations run in the real code; DAGs whose branches finish out of order on several pools; kills from outside (model and runs).",
 "C18": " Also: every initial state of the model configurations run in the real code; more than 1 000 pipelines known to one scheduler; kills from outside (model and runs).",
 "C13": " Also: `eudoxia run P` against `eudoxia gentrace P F` + `eudoxia run P -w F` through the command line, one reader used for a second replay, consumers that extend the list they were handed, tick rates of 30 000-99 999.",
 "C14": " Also: the structure the builder meant (not what the objects say after the builder reused its lists), scaling laws given as callables, a writer that must accept every well-formed workload.",
 "C15": " Also: more than 2^16 pipelines from one generator, tail draws played by the RNG proxy (negative waiting times and operator counts), consumers that mutate the returned list, and the probability clauses on whole run_simulator runs.",
 "C19": " Also: runs of one to three ticks with no call due before the end, optional flags in the replies.",
 "C20": " Also: the tools through the command line, the real sensitivity-sample command (it derives the seeds), stale output files, header-only traces, times spelled 7e-05, arrival x rate above 2^29, a second interpreter with another hash seed.",
}
for k, v in ADDED.items():
    CLAIMED[k]["text"] += v

for p in props:
    pid = p["id"]
    c = CLAIMED.get(pid)
    if not c:
        na.append({"property_id": pid, "reason": NOT_YET})
        continue
    checks.append({
        "property_id": pid,
        "quick_cmd": f"./check {pid} --tier quick",
        "thorough_cmd": f"./check {pid} --tier thorough",
        "evidence_file": f"/verif/evidence/{pid}.json",
        "replay_cmd_template": f"./check {pid} --replay {{path}}",
        "engine": c["engine"],
        "level_claimed": {"category": "model_checking", "text": c["text"], "design_ref": c["ref"]},
        "level_note": c.get("note", EXEC_NOTE),
        "technique": c["technique"],
    })
    engines.setdefault(c["engine"], []).append(pid)

m = {
 "version": 1,
 "setup_cmd": "cd /verif && /venv/bin/python -m compileall -q harness >/dev/null && ./setup.sh",
 "hooks": {"guard": "EUDOXIA_VERIF",
           "enable": "none needed: the harness observes through public attributes and wraps objects on its own side; EUDOXIA_VERIF=1 is exported by ./check and reserved for future hooks",
           "baseline_off_cmd": "cd /repo && env -u EUDOXIA_VERIF /venv/bin/python -m pytest -ra -q -p no:cacheprovider --timeout=900 --continue-on-collection-errors",
           "source_commits": [], "add_only": True},
 "engines": [{"name": k, "path": "/verif/spec", "serves_properties": v, "kind_free_text": "TLA+ specification checked with TLC, bound to the implementation by trace validation / replay (harness/)"} for k, v in engines.items()],
 "checks": checks,
 "notes": "See DESIGN.md. ./check <id> --tier quick|thorough; exit 0 held, 1 VIOLATION, 2 machinery failure. Known findings: known_findings.json.",
 "not_applicable": na,
}
json.dump(m, open(ROOT / "MANIFEST.json", "w"), indent=1)
print(f"{len(checks)} claimed, {len(na)} not claimed")
