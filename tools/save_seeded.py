#!/usr/bin/env python3
"""Copy evaluated seeded changes into /verif/seeded/<prop>-<k>/ with a meta.json built from the evaluation results."""
import json, glob, os, shutil, sys, re
res = {}
for f in sorted(glob.glob('/root/mut_results/*.json')):
    try:
        d = json.load(open(f))
    except Exception:
        continue
    key = os.path.basename(f).split('.')[0]
    m = re.match(r'([HRST]?)(C\d\d)_(\d)', key)
    if not m:
        continue
    res.setdefault((m.group(1) + m.group(2), m.group(3)), []).append((key, d))
for (prop, k), runs in sorted(res.items()):
    hard = prop.startswith('H')
    third = prop.startswith('R')
    fourth = prop.startswith('S')
    fifth = prop.startswith('T')
    prop = prop.lstrip('HRST')
    src = f'/tmp/mut5_{prop}/{k}' if fifth else f'/tmp/mut4_{prop}/{k}' if fourth else f'/tmp/mut3_{prop}/{k}' if third else f'/tmp/mut2_{prop}/{k}' if hard else f'/tmp/mut_{prop}/{k}'
    if not os.path.isdir(src):
        continue
    dst = f'/verif/seeded/{prop}-{"t" if fifth else "s" if fourth else "r" if third else "h" if hard else ""}{k}'
    os.makedirs(dst, exist_ok=True)
    for fn in ('patch.diff', 'demo.py', 'notes.txt'):
        if os.path.exists(f'{src}/{fn}'):
            shutil.copy(f'{src}/{fn}', f'{dst}/{fn}')
    first = runs[0][1]
    checks = {}
    for key, d in runs:                       # later evaluations (after the checks were strengthened) override earlier ones
        for p, v in (d.get('checks') or {}).items():
            checks.setdefault(p, []).append({"evaluation": key, "rc": v["rc"], "first_line": (v["lines"][0][:200] if v["lines"] else "")})
    tests = next((d.get('tests') for _, d in runs if d.get('tests')), '')
    if not tests and os.path.exists(f'{dst}/meta.json'):      # a re-evaluation with --skip-tests keeps the recorded suite result
        try:
            tests = json.load(open(f'{dst}/meta.json'))["confirmed"]["test_suite_with_patch"]
        except Exception:
            pass
    notes = open(f'{src}/notes.txt').read() if os.path.exists(f'{src}/notes.txt') else ''
    if not notes and os.path.exists(f'{src}/meta.json'):      # fifth round: the author's own meta.json
        try:
            am = json.load(open(f'{src}/meta.json'))
            notes = "Change: " + str(am.get("summary", "")) + "\nNeeds: " + str(am.get("needs", ""))
        except Exception:
            pass
    caught_by = sorted({p for p, vs in checks.items() if vs[-1]["rc"] == 1})
    meta = {"breaks_property": prop, "written_by": "independent sub-agent given only the property text and a scratch worktree" + (" and asked for a change that needs something specific to manifest - an interleaving, a fault at a particular point, a multi-step sequence, an unusual valid input, two cooperating sites (fifth round)" if fifth else " and asked for changes that are hard for a randomized/model-based checker (second round)" if hard else " and asked for error paths, boundaries, unusual but legal API use, other modules (third round)" if third else " and asked for defects that manifest in mainstream use only: run_simulator / the command line, shipped schedulers, valid parameters (fourth round)" if fourth else ""),
            "needs_to_manifest": notes.strip().split('\n')[:8],
            "confirmed": {"patch_applies_to_repo_head": first.get("applies"), "test_suite_with_patch": tests,
                          "demo_exit_with_patch": first.get("demo_with_patch_rc"), "demo_exit_without_patch": first.get("demo_without_patch_rc"),
                          "how": "tools/try_mutant.py: scratch worktree of /repo HEAD outside /repo and /verif, patch applied there, repository test-suite, demo with and without the patch, then ./check <prop> --tier quick with VERIF_REPO pointing at the patched tree; worktree removed afterwards"},
            "checks": checks, "caught_by_latest": caught_by, "caught_by_owner": prop in caught_by}
    json.dump(meta, open(f'{dst}/meta.json', 'w'), indent=1)
    print(prop, k, "owner" if prop in caught_by else "NOT-OWNER", caught_by)
