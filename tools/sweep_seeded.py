#!/usr/bin/env python3
"""Re-evaluate every seeded change kept under /verif/seeded against the CURRENT checks.

tools/sweep_seeded.py [--only C06,C08-h1] [--jobs N] [--out FILE]

For each /verif/seeded/<id>/patch.diff: a scratch worktree of /repo's HEAD under the system temp directory (removed
afterwards), the patch applied there, then `./check <prop> --tier quick` with VERIF_REPO pointing at it, for the
owning property and for every property meta.json lists under caught_by_latest.  Nothing in /repo is touched.
Prints one line per change and a summary; exit 0 always (this is a measurement, not a check).  The result is compared
with meta.json: a change that was caught before and is missed now is a regression of the machinery."""
import glob, json, os, shutil, subprocess, sys, tempfile, time

VERIF = os.path.dirname(os.path.dirname(os.path.abspath(__file__)))
only = None
out_file = None
args = sys.argv[1:]
while args:
    a = args.pop(0)
    if a == "--only":
        only = set(args.pop(0).split(","))
    elif a == "--out":
        out_file = args.pop(0)


def sh(cmd, **kw):
    return subprocess.run(cmd, shell=True, capture_output=True, text=True, **kw)


rows = []
for d in sorted(glob.glob(f"{VERIF}/seeded/*/")):
    name = os.path.basename(d.rstrip("/"))
    meta = json.load(open(d + "meta.json"))
    owner = meta["breaks_property"]
    if only and name not in only and owner not in only:
        continue
    props = [owner] + [p for p in meta.get("caught_by_latest", []) if p != owner]
    wt = tempfile.mkdtemp(prefix=f"sweep_{name}_")
    os.rmdir(wt)
    res = {}
    try:
        r = sh(f"git -C /repo worktree add -q --detach {wt} HEAD")
        assert r.returncode == 0, r.stderr
        r = sh(f"git -C {wt} apply {d}patch.diff")
        if r.returncode != 0:
            rows.append((name, owner, "NOAPPLY", {}, meta.get("caught_by_latest", [])))
            print(name, "patch does not apply", flush=True)
            continue
        for p in props:
            t = time.time()
            e = dict(os.environ, VERIF_REPO=wt)
            r = sh(f"cd {VERIF} && ./check {p} --tier quick", env=e)
            first = next((l for l in r.stdout.splitlines() if l.startswith("VIOLATION")), "")
            res[p] = {"rc": r.returncode, "wall": round(time.time() - t), "clause": first.split("clause=")[1].split(" ")[0] if "clause=" in first else "",
                      "err": r.stderr[-200:] if r.returncode == 2 else ""}
    finally:
        sh(f"git -C /repo worktree remove --force {wt}")
        shutil.rmtree(wt, ignore_errors=True)
    before = set(meta.get("caught_by_latest", []))
    now = {p for p, v in res.items() if v["rc"] == 1}
    status = "caught" if owner in now else ("caught-by-other" if now else "MISSED")
    if before - now:
        status += " REGRESSION(" + ",".join(sorted(before - now)) + ")"
    if any(v["rc"] == 2 for v in res.values()):
        status += " MACHINERY-ERROR"
    rows.append((name, owner, status, res, sorted(before)))
    print(f"{name:8s} {status:40s} " + " ".join(f"{p}:{v['rc']}:{v['clause']}" for p, v in res.items()), flush=True)

summary = {"total": len(rows), "caught_by_owner": sum(1 for r in rows if r[2].startswith("caught") and not r[2].startswith("caught-by-other")),
           "caught_by_other_only": sum(1 for r in rows if r[2].startswith("caught-by-other")), "missed": [r[0] for r in rows if r[2].startswith("MISSED")],
           "regressions": [r[0] for r in rows if "REGRESSION" in r[2]], "machinery_errors": [r[0] for r in rows if "MACHINERY" in r[2]]}
print(json.dumps(summary))
if out_file:
    json.dump({"summary": summary, "rows": [{"id": r[0], "owner": r[1], "status": r[2], "checks": r[3], "caught_before": r[4]} for r in rows]}, open(out_file, "w"), indent=1)
