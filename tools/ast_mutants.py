#!/venv/bin/python
# (run with /venv/bin/python: the code under test uses Python 3.12 syntax)
"""Mechanical mutants (a measurement, not a check): tools/ast_mutants.py [--n 40] [--seed 1] [--out FILE]

Small syntactic changes of the code under test - a comparison operator flipped, `+ 1` / `- 1` on an integer constant, an `and`
turned into `or`, a `not` dropped, `min` <-> `max`, `>=` <-> `>` - are applied one at a time in a scratch worktree of /repo's HEAD.
A mutant that still passes the repository's 51 tests ("survives") is run against the quick checks of the properties its file bears
on.  Prints one line per mutant and a summary.  Survivors that no check catches are listed for reading: they are either
equivalent changes (no observable difference) or holes of the machinery.  Nothing in /repo is touched."""
import ast, json, os, random, shutil, subprocess, sys, tempfile, time

VERIF = os.path.dirname(os.path.dirname(os.path.abspath(__file__)))
FILES = {
    "eudoxia/executor/container.py": ["C05", "C10", "C02", "C09"],
    "eudoxia/executor/resource_pool.py": ["C03", "C04", "C11", "C09", "C10"],
    "eudoxia/executor/executor.py": ["C09", "C03"],
    "eudoxia/executor/assignment.py": ["C09", "C02"],
    "eudoxia/workload/runtime_status.py": ["C02", "C01"],
    "eudoxia/workload/pipeline.py": ["C05", "C01", "C14"],
    "eudoxia/utils/dag.py": ["C01"],
    "eudoxia/workload/workload.py": ["C15", "C13", "C07"],
    "eudoxia/workload/csv_io.py": ["C14", "C13"],
    "eudoxia/scheduler/naive.py": ["C17", "C08"],
    "eudoxia/scheduler/priority.py": ["C12", "C08"],
    "eudoxia/scheduler/priority_pool.py": ["C16", "C12", "C08"],
    "eudoxia/scheduler/overbook.py": ["C18", "C08"],
    "eudoxia/scheduler/rest.py": ["C19"],
    "eudoxia/simulator.py": ["C06", "C08", "C07"],
    "eudoxia/tools.py": ["C20"],
}
SWAP = {ast.Lt: ast.LtE, ast.LtE: ast.Lt, ast.Gt: ast.GtE, ast.GtE: ast.Gt, ast.Eq: ast.NotEq, ast.NotEq: ast.Eq,
        ast.Add: ast.Sub, ast.Sub: ast.Add, ast.Mult: ast.FloorDiv, ast.And: ast.Or, ast.Or: ast.And}


def sites(tree):
    out = []
    for node in ast.walk(tree):
        if isinstance(node, ast.Compare) and len(node.ops) == 1 and type(node.ops[0]) in SWAP:
            out.append(("cmp", node))
        elif isinstance(node, ast.BinOp) and type(node.op) in (ast.Add, ast.Sub):
            out.append(("arith", node))
        elif isinstance(node, ast.BoolOp):
            out.append(("bool", node))
        elif isinstance(node, ast.UnaryOp) and isinstance(node.op, ast.Not):
            out.append(("not", node))
        elif isinstance(node, ast.Constant) and isinstance(node.value, int) and not isinstance(node.value, bool) and 0 <= node.value <= 100:
            out.append(("const", node))
        elif isinstance(node, ast.Call) and isinstance(node.func, ast.Name) and node.func.id in ("min", "max"):
            out.append(("minmax", node))
    return out


def mutate(src, rng):
    """Returns (new source, description) or None.  Works on the source text through node positions (keeps formatting and comments)."""
    tree = ast.parse(src)
    cand = [s for s in sites(tree) if hasattr(s[1], "lineno")]
    # skip docstrings / logging lines / asserts' messages
    lines = src.splitlines()
    cand = [s for s in cand if "logger." not in lines[s[1].lineno - 1] and "print(" not in lines[s[1].lineno - 1]]
    if not cand:
        return None
    kind, node = rng.choice(cand)
    seg = ast.get_source_segment(src, node)
    if seg is None:
        return None
    new = None
    if kind == "cmp":
        op = SWAP[type(node.ops[0])]()
        node.ops = [op]
        new = ast.unparse(node)
    elif kind == "arith":
        node.op = SWAP[type(node.op)]()
        new = ast.unparse(node)
    elif kind == "bool":
        node.op = SWAP[type(node.op)]()
        new = ast.unparse(node)
    elif kind == "not":
        new = ast.unparse(node.operand)
    elif kind == "const":
        new = str(node.value + rng.choice([1, -1]) if node.value > 0 else 1)
    elif kind == "minmax":
        node.func.id = "max" if node.func.id == "min" else "min"
        new = ast.unparse(node)
    if new is None or new == seg:
        return None
    # replace exactly that segment (by offsets)
    start = sum(len(l) + 1 for l in lines[:node.lineno - 1]) + len(lines[node.lineno - 1].encode()[:node.col_offset].decode(errors="ignore"))
    if src[start:start + len(seg)] != seg:
        return None
    out = src[:start] + new + src[start + len(seg):]
    try:
        ast.parse(out)
    except SyntaxError:
        return None
    return out, f"line {node.lineno}: `{seg[:60]}` -> `{new[:60]}` ({kind})"


def sh(cmd, **kw):
    return subprocess.run(cmd, shell=True, capture_output=True, text=True, **kw)


def main():
    n, seed, out_file = 40, 1, None
    args = sys.argv[1:]
    while args:
        a = args.pop(0)
        if a == "--n":
            n = int(args.pop(0))
        elif a == "--seed":
            seed = int(args.pop(0))
        elif a == "--out":
            out_file = args.pop(0)
    rng = random.Random(seed)
    rows = []
    tried = 0
    while len(rows) < n and tried < n * 6:
        tried += 1
        rel = rng.choice(list(FILES))
        src = open("/repo/" + rel).read()
        m = mutate(src, rng)
        if not m:
            continue
        new, what = m
        wt = tempfile.mkdtemp(prefix="astmut_")
        os.rmdir(wt)
        try:
            r = sh(f"git -C /repo worktree add -q --detach {wt} HEAD")
            assert r.returncode == 0, r.stderr
            open(f"{wt}/{rel}", "w").write(new)
            env = dict(os.environ)
            env.pop("EUDOXIA_VERIF", None)
            t = sh(f"cd {wt} && timeout 600 /venv/bin/python -m pytest -q -x -p no:cacheprovider --timeout=600 2>&1 | tail -1", env=env)
            survived = " passed" in t.stdout and "failed" not in t.stdout and "error" not in t.stdout.lower()
            res = {}
            if survived:
                for p in FILES[rel]:
                    c = sh(f"cd {VERIF} && ./check {p} --tier quick", env=dict(os.environ, VERIF_REPO=wt))
                    first = next((l for l in c.stdout.splitlines() if l.startswith("VIOLATION")), "")
                    res[p] = {"rc": c.returncode, "clause": first.split("clause=")[1].split(" ")[0] if "clause=" in first else ""}
                    if c.returncode == 1:
                        break          # caught: no need to run the others
            status = "killed-by-tests" if not survived else ("caught" if any(v["rc"] == 1 for v in res.values()) else "SURVIVED-ALL" if all(v["rc"] == 0 for v in res.values()) else "machinery-error")
            rows.append({"file": rel, "what": what, "status": status, "checks": res})
            print(f"{status:16s} {rel:38s} {what}  " + " ".join(f"{p}:{v['rc']}:{v['clause']}" for p, v in res.items()), flush=True)
        finally:
            sh(f"git -C /repo worktree remove --force {wt}")
            shutil.rmtree(wt, ignore_errors=True)
    summ = {"mutants": len(rows), "killed_by_tests": sum(r["status"] == "killed-by-tests" for r in rows), "caught_by_checks": sum(r["status"] == "caught" for r in rows),
            "survived_all": [r["file"] + " " + r["what"] for r in rows if r["status"] == "SURVIVED-ALL"], "machinery_errors": sum(r["status"] == "machinery-error" for r in rows)}
    print(json.dumps(summ, indent=1))
    if out_file:
        json.dump({"summary": summ, "rows": rows}, open(out_file, "w"), indent=1)


if __name__ == "__main__":
    main()
