#!/bin/sh
# run every check once (tier $1, default quick) and print a summary; used to regenerate evidence on /repo
tier=${1:-quick}
cd "$(dirname "$0")/.."
for p in C01 C02 C03 C04 C05 C06 C07 C08 C09 C10 C11 C12 C13 C14 C15 C16 C17 C18 C19 C20; do
  s=$(date +%s)
  timeout 14000 ./check $p --tier $tier > /tmp/runall_$p.log 2>&1; rc=$?
  echo "$p rc=$rc $(($(date +%s)-s))s $(grep -c '^VIOLATION' /tmp/runall_$p.log) violations $(grep -c '^KNOWN' /tmp/runall_$p.log) known"
done
