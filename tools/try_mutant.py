#!/usr/bin/env python3
"""Evaluate one seeded change: tools/try_mutant.py <mutant-dir> <owner-prop> [more props...]

<mutant-dir> holds patch.diff and demo.py.  In a scratch worktree of /repo's HEAD (outside /repo and
/verif, removed afterwards): apply the patch, run the repository's test-suite, run the demo with and
without the patch, then run ./check <prop> --tier quick with VERIF_REPO pointing at the patched tree.
Prints one JSON line with the outcome."""
import json, os, subprocess, sys, tempfile, shutil, time

mdir = os.path.abspath(sys.argv[1]); props = sys.argv[2:]
name = os.path.basename(os.path.dirname(mdir + "/")) + "_" + os.path.basename(mdir.rstrip("/"))
wt = tempfile.mkdtemp(prefix=f"mw_{name}_", dir="/tmp"); os.rmdir(wt)
out = {"mutant": mdir, "props": props}
def sh(cmd, **kw):
    return subprocess.run(cmd, shell=True, capture_output=True, text=True, **kw)
try:
    r = sh(f"git -C /repo worktree add -q --detach {wt} HEAD"); assert r.returncode == 0, r.stderr
    r = sh(f"git -C {wt} apply {mdir}/patch.diff"); out["applies"] = r.returncode == 0
    if not out["applies"]:
        out["apply_err"] = r.stderr[-300:]
    else:
        env = dict(os.environ); env.pop("EUDOXIA_VERIF", None)
        if "--skip-tests" not in sys.argv:
            r = sh(f"cd {wt} && timeout 900 /venv/bin/python -m pytest -q -p no:cacheprovider --timeout=900 -q 2>&1 | tail -2", env=env)
            out["tests"] = r.stdout.strip().splitlines()[-1] if r.stdout.strip() else r.stderr[-200:]
        r = sh(f"cd {mdir} && PYTHONPATH={wt} timeout 600 /venv/bin/python demo.py", env=env); out["demo_with_patch_rc"] = r.returncode
        r = sh(f"cd {mdir} && PYTHONPATH=/repo timeout 600 /venv/bin/python demo.py", env=env); out["demo_without_patch_rc"] = r.returncode
        out["checks"] = {}
        for p in [x for x in props if not x.startswith("--")]:
            t = time.time()
            e = dict(os.environ); e["VERIF_REPO"] = wt
            r = sh(f"cd /verif && ./check {p} --tier quick", env=e)
            lines = [l[:260] for l in r.stdout.splitlines() if l.startswith("VIOLATION") or l.startswith("KNOWN")]
            out["checks"][p] = {"rc": r.returncode, "wall": round(time.time() - t), "lines": lines[:6],
                                "err": r.stderr[-300:] if r.returncode == 2 else ""}
finally:
    sh(f"git -C /repo worktree remove --force {wt}")
    shutil.rmtree(wt, ignore_errors=True)
print(json.dumps(out))
