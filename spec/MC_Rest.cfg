SPECIFICATION Spec
CONSTANTS
  Pipes = {1, 2, 3}
  MaxTick = 6
  Poll = 2
INVARIANT C19_Disjoint
INVARIANT C19_IdleSpacing
INVARIANT C19_NeverAgain
INVARIANT C19_KnownAreLive
PROPERTY C19_CompleteExactlyOnce
