------------------------------- MODULE Timing -------------------------------
(* The documented time model (C05, C10, C13, C20) as exact integer/rational arithmetic.

   A duration in seconds is a rational num/den; ticks = floor(seconds * tps).
   Scaling laws: cpu_time(cpus) = base / Divisor(law, cpus) for the five rational laws;
   sqrt and log are irrational and are handled as predicates (TicksOK...) by squaring /
   by a bounded table, never by computing a float.

   Float band (C05: "quantities within float rounding of a tick or limit boundary may fall
   on either side"): on rational inputs a quantity is either EXACTLY on a boundary or at
   least 1/(den) away from it, so the band is "exactly on the boundary => either side".   *)
EXTENDS Integers, Sequences, BigNat, LnTable

RationalLaws == {"const", "linear3", "linear7", "squared", "exp"}
Pow2(n) == IF n = 0 THEN 1 ELSE IF n = 1 THEN 2 ELSE IF n = 2 THEN 4 ELSE 8
Divisor(law, cpus) ==
  CASE law = "const"   -> 1
    [] law = "linear3" -> IF cpus < 3 THEN cpus ELSE 3
    [] law = "linear7" -> IF cpus < 7 THEN cpus ELSE 7
    [] law = "squared" -> cpus * cpus
    [] law = "exp"     -> IF cpus < 4 THEN Pow2(cpus) ELSE 16

\* floor(num/den * tps) for small numbers (stepping traces, model configs)
FloorTicks(num, den, tps) == (num * tps) \div den
OnBoundary(num, den, tps) == num # 0 /\ (num * tps) % den = 0

CpuTicks(law, cpus, bnum, bden, tps) == FloorTicks(bnum, bden * Divisor(law, cpus), tps)
CpuOnBoundary(law, cpus, bnum, bden, tps) == OnBoundary(bnum, bden * Divisor(law, cpus), tps)

\* I/O: read_gb / 20 seconds;  read given in units, U units per GB
IoTicks(readU, U, tps) == FloorTicks(readU, 20 * U, tps)
IoOnBoundary(readU, U, tps) == OnBoundary(readU, 20 * U, tps)

\* suspension: allocation / 20 seconds, at least one tick (C10)
SuspTicksExact(ramU, U, tps) == FloorTicks(ramU, 20 * U, tps)
SuspOnBoundary(ramU, U, tps) == OnBoundary(ramU, 20 * U, tps)

(* ------------------------------------------------------------------------------------ *)
(* Closed form at any tick rate (C05 high-rate cases): exact predicates over BigNat.      *)
(* T is a CERTIFICATE proposed by the harness; the predicates below decide whether it is   *)
(* the documented value - the harness is not trusted for it.                               *)
(* ------------------------------------------------------------------------------------ *)
\* T = floor(P/Q)  <=>  T*Q <= P < (T+1)*Q
FloorOK(T, P, Q) == T >= 0 /\ BNLe(BNMul(BNFromInt(T), Q), P) /\ BNLt(P, BNMul(BNFromInt(T + 1), Q))
ExactlyOn(T, P, Q) == T >= 1 /\ BNCmp(BNMul(BNFromInt(T), Q), P) = 0

\* I/O ticks of a segment reading read_m milli-GB:  floor(read_m/1000/20 * tps)
IoOK(T, readM, tps) == FloorOK(T, BNProd(<<readM, tps>>), BNFromInt(20000))
IoBand(T, readM, tps) == ExactlyOn(T, BNProd(<<readM, tps>>), BNFromInt(20000))

Sq(x) == BNMul(x, x)
\* CPU ticks: floor(base/scale(law, cpus) * tps), base = bnum/bden seconds
CpuOK(T, law, cpus, bnum, bden, tps) ==
  CASE law \in RationalLaws -> FloorOK(T, BNProd(<<bnum, tps>>), BNProd(<<bden, Divisor(law, cpus)>>))
    [] law = "sqrt" ->    \* T <= X/sqrt(c) < T+1  <=>  T^2 c bden^2 <= (bnum tps)^2 < (T+1)^2 c bden^2
         /\ T >= 0
         /\ BNLe(BNMul(Sq(BNFromInt(T)), BNMul(BNFromInt(cpus), Sq(BNFromInt(bden)))), Sq(BNProd(<<bnum, tps>>)))
         /\ BNLt(Sq(BNProd(<<bnum, tps>>)), BNMul(Sq(BNFromInt(T + 1)), BNMul(BNFromInt(cpus), Sq(BNFromInt(bden)))))
    [] law = "log" ->     \* T <= X/(ln c + 1) < T+1, decided with the bounds of LnTable: "possibly true"
         /\ T >= 0 /\ cpus \in 1..LnMax
         /\ BNLe(BNMul(BNProd(<<T, bden>>), BNAdd(LnLo[cpus], LnScale)), BNMul(BNProd(<<bnum, tps>>), LnScale))
         /\ BNLt(BNMul(BNProd(<<bnum, tps>>), LnScale), BNMul(BNProd(<<T + 1, bden>>), BNAdd(LnHi[cpus], LnScale)))
\* may the float evaluation legitimately give T-1 ?  (exactly on the boundary; for log: within the table's uncertainty)
CpuBandLo(T, law, cpus, bnum, bden, tps) ==
  CASE law \in RationalLaws -> ExactlyOn(T, BNProd(<<bnum, tps>>), BNProd(<<bden, Divisor(law, cpus)>>))
    [] law = "sqrt" -> T >= 1 /\ BNCmp(BNMul(Sq(BNFromInt(T)), BNMul(BNFromInt(cpus), Sq(BNFromInt(bden)))), Sq(BNProd(<<bnum, tps>>))) = 0
    [] law = "log" -> T >= 1 /\ ~BNLt(BNMul(BNProd(<<T, bden>>), BNAdd(LnHi[cpus], LnScale)), BNMul(BNProd(<<bnum, tps>>), LnScale))
CpuBandHi(T, law, cpus, bnum, bden, tps) ==
  law = "log" /\ ~BNLt(BNMul(BNProd(<<bnum, tps>>), LnScale), BNMul(BNProd(<<T + 1, bden>>), BNAdd(LnLo[cpus], LnScale)))

\* memory demand comparisons, in milli-GB against an allocation ramM; growth (i+1)*20/tps GB in I/O tick i
GrowGt(i, tps, ramM) == ProdCmp(<<i + 1, 20000>>, <<ramM, tps>>) = 1      \* demand at I/O tick i  >  allocation
GrowEq(i, tps, ramM) == ProdCmp(<<i + 1, 20000>>, <<ramM, tps>>) = 0
\* suspension length: floor(ramM/1000/20 * tps), at least one
SuspOK(T, ramM, tps) == FloorOK(T, BNProd(<<ramM, tps>>), BNFromInt(20000))
SuspBand(T, ramM, tps) == ExactlyOn(T, BNProd(<<ramM, tps>>), BNFromInt(20000))
=============================================================================
