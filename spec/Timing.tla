------------------------------- MODULE Timing -------------------------------
(* The documented time model (C05, C10, C13, C20) as exact integer/rational arithmetic.

   A duration in seconds is a rational num/den; ticks = floor(seconds * tps).
   Scaling laws: cpu_time(cpus) = base / Divisor(law, cpus) for the five rational laws;
   sqrt and log are irrational and are handled as predicates (TicksOK...) by squaring /
   by a bounded table, never by computing a float.

   Float band (C05: "quantities within float rounding of a tick or limit boundary may fall
   on either side"): on rational inputs a quantity is either EXACTLY on a boundary or at
   least 1/(den) away from it, so the band is "exactly on the boundary => either side".   *)
EXTENDS Integers, Sequences, BigNat, LnTable

RationalLaws == {"const", "linear3", "linear7", "squared", "exp"}
Pow2(n) == IF n = 0 THEN 1 ELSE IF n = 1 THEN 2 ELSE IF n = 2 THEN 4 ELSE 8
Divisor(law, cpus) ==
  CASE law = "const"   -> 1
    [] law = "linear3" -> IF cpus < 3 THEN cpus ELSE 3
    [] law = "linear7" -> IF cpus < 7 THEN cpus ELSE 7
    [] law = "squared" -> cpus * cpus
    [] law = "exp"     -> IF cpus < 4 THEN Pow2(cpus) ELSE 16

\* floor(num/den * tps) for small numbers (stepping traces, model configs)
FloorTicks(num, den, tps) == (num * tps) \div den
OnBoundary(num, den, tps) == num # 0 /\ (num * tps) % den = 0

CpuTicks(law, cpus, bnum, bden, tps) == FloorTicks(bnum, bden * Divisor(law, cpus), tps)
CpuOnBoundary(law, cpus, bnum, bden, tps) == OnBoundary(bnum, bden * Divisor(law, cpus), tps)

\* I/O: read_gb / 20 seconds;  read given in units, U units per GB
IoTicks(readU, U, tps) == FloorTicks(readU, 20 * U, tps)
IoOnBoundary(readU, U, tps) == OnBoundary(readU, 20 * U, tps)

\* suspension: allocation / 20 seconds, at least one tick (C10)
SuspTicksExact(ramU, U, tps) == FloorTicks(ramU, 20 * U, tps)
SuspOnBoundary(ramU, U, tps) == OnBoundary(ramU, 20 * U, tps)

(* ------------------------------------------------------------------------------------ *)
(* Closed form at any tick rate (C05 high-rate cases): exact predicates over BigNat.      *)
(* T is a CERTIFICATE proposed by the harness; the predicates below decide whether it is   *)
(* the documented value - the harness is not trusted for it.                               *)
(* ------------------------------------------------------------------------------------ *)
\* T = floor(P/Q)  <=>  T*Q <= P < (T+1)*Q
FloorOK(T, P, Q) == T >= 0 /\ BNLe(BNMul(BNFromInt(T), Q), P) /\ BNLt(P, BNMul(BNFromInt(T + 1), Q))
ExactlyOn(T, P, Q) == T >= 1 /\ BNCmp(BNMul(BNFromInt(T), Q), P) = 0

\* I/O ticks of a segment reading read_m milli-GB:  floor(read_m/1000/20 * tps)
IoOK(T, readM, tps) == FloorOK(T, BNProd(<<readM, tps>>), BNFromInt(20000))
IoBand(T, readM, tps) == ExactlyOn(T, BNProd(<<readM, tps>>), BNFromInt(20000))

Sq(x) == BNMul(x, x)
\* CPU counts may be fractional (a scheduler may request 2.5 cpus): the closed form takes c2 = 2 * cpus (half-integer grid).
\* scale(law, cpus) as a rational <<n, d>> where it is rational
HalfInt(c2) == c2 % 2 = 1
Scale2(law, c2) ==
  CASE law = "const"   -> <<1, 1>>
    [] law = "linear3" -> IF c2 < 6 THEN <<c2, 2>> ELSE <<3, 1>>
    [] law = "linear7" -> IF c2 < 14 THEN <<c2, 2>> ELSE <<7, 1>>
    [] law = "squared" -> <<c2 * c2, 4>>
    [] law = "exp"     -> IF c2 >= 8 THEN <<16, 1>> ELSE <<Pow2(c2 \div 2), 1>>        \* even c2 only; odd c2 < 8 is 2^(k+1/2), handled below
Rational2(law, c2) == law \in {"const", "linear3", "linear7", "squared"} \/ (law = "exp" /\ (~HalfInt(c2) \/ c2 >= 8))
\* X = bnum*tps/bden;  ticks = floor(X / scale)
\* irrational scales as "T^2 * K <= X^2 * L < (T+1)^2 * K":   sqrt: scale^2 = c2/2 -> K = c2 * bden^2, L = 2;   exp, c = k+1/2: scale^2 = 2^(2k+1) -> K = 2^(2k+1) * bden^2, L = 1
SqK(law, c2, bden) == IF law = "sqrt" THEN BNMul(BNFromInt(c2), Sq(BNFromInt(bden))) ELSE BNMul(BNFromInt(2 * Pow2(c2 \div 2) * Pow2(c2 \div 2)), Sq(BNFromInt(bden)))
SqL(law) == IF law = "sqrt" THEN BNFromInt(2) ELSE BNFromInt(1)
CpuOK(T, law, c2, bnum, bden, tps) ==
  IF Rational2(law, c2)
  THEN FloorOK(T, BNProd(<<bnum, tps, Scale2(law, c2)[2]>>), BNProd(<<bden, Scale2(law, c2)[1]>>))
  ELSE IF law \in {"sqrt", "exp"}
  THEN /\ T >= 0
       /\ BNLe(BNMul(Sq(BNFromInt(T)), SqK(law, c2, bden)), BNMul(Sq(BNProd(<<bnum, tps>>)), SqL(law)))
       /\ BNLt(BNMul(Sq(BNProd(<<bnum, tps>>)), SqL(law)), BNMul(Sq(BNFromInt(T + 1)), SqK(law, c2, bden)))
  ELSE     \* log (whole cpu counts only): T <= X/(ln c + 1) < T+1, decided with the bounds of LnTable: "possibly true"
       /\ T >= 0 /\ ~HalfInt(c2) /\ (c2 \div 2) \in 1..LnMax
       /\ BNLe(BNMul(BNProd(<<T, bden>>), BNAdd(LnLo[c2 \div 2], LnScale)), BNMul(BNProd(<<bnum, tps>>), LnScale))
       /\ BNLt(BNMul(BNProd(<<bnum, tps>>), LnScale), BNMul(BNProd(<<T + 1, bden>>), BNAdd(LnHi[c2 \div 2], LnScale)))
\* may the float evaluation legitimately give T-1 ?  (exactly on the boundary; for log: within the table's uncertainty)
CpuBandLo(T, law, c2, bnum, bden, tps) ==
  IF Rational2(law, c2) THEN ExactlyOn(T, BNProd(<<bnum, tps, Scale2(law, c2)[2]>>), BNProd(<<bden, Scale2(law, c2)[1]>>))
  ELSE IF law \in {"sqrt", "exp"} THEN T >= 1 /\ BNCmp(BNMul(Sq(BNFromInt(T)), SqK(law, c2, bden)), BNMul(Sq(BNProd(<<bnum, tps>>)), SqL(law))) = 0
  ELSE T >= 1 /\ ~BNLt(BNMul(BNProd(<<T, bden>>), BNAdd(LnHi[c2 \div 2], LnScale)), BNMul(BNProd(<<bnum, tps>>), LnScale))
CpuBandHi(T, law, c2, bnum, bden, tps) ==
  law = "log" /\ ~BNLt(BNMul(BNProd(<<bnum, tps>>), LnScale), BNMul(BNProd(<<T + 1, bden>>), BNAdd(LnLo[c2 \div 2], LnScale)))

\* memory demand comparisons, in milli-GB against an allocation ramM; growth (i+1)*20/tps GB in I/O tick i
GrowGt(i, tps, ramM) == ProdCmp(<<i + 1, 20000>>, <<ramM, tps>>) = 1      \* demand at I/O tick i  >  allocation
GrowEq(i, tps, ramM) == ProdCmp(<<i + 1, 20000>>, <<ramM, tps>>) = 0
\* suspension length: floor(ramM/1000/20 * tps), at least one
SuspOK(T, ramM, tps) == FloorOK(T, BNProd(<<ramM, tps>>), BNFromInt(20000))
SuspBand(T, ramM, tps) == ExactlyOn(T, BNProd(<<ramM, tps>>), BNFromInt(20000))
=============================================================================
