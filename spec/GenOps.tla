-------------------------------- MODULE GenOps --------------------------------
(* C15: constant operators of the workload generator's rules (shared by Generator.tla and TraceGen.tla). *)
EXTENDS Integers, Sequences, FiniteSets, TLC

\* the documented segment prototypes: <<baseline cpu seconds (milli), scaling law, storage read GB (milli)>>
QueryProto == <<15000, "linear3", 35000>>
IoHeavy    == <<1000, "const", 55000>>
\* prototype of a later operator from the draw val (given as floor(val * 1000)); values below -1 are clamped to -1
ProtoOfMilli(v) ==
  LET m == IF v < -1000 THEN -1000 ELSE v IN
  IF m < -500 THEN <<2000, "sqrt", 55000>>
  ELSE IF m < 0 THEN <<5000, "linear3", 45000>>
  ELSE IF m < 500 THEN <<15000, "linear3", 37500>>
  ELSE IF m < 1000 THEN <<20000, "linear7", 30000>>
  ELSE IF m < 1500 THEN <<40000, "linear7", 20000>>
  ELSE <<80000, "squared", 10000>>
\* raising the ratio shifts the mix towards CPU-heavy prototypes: the map draw -> cpu seconds is monotone
\* neighbouring draws suffice (<= is transitive); TLC evaluates this constant at start-up of every module that extends GenOps, so it has to be cheap
ProtoMonotone == \A a \in -3000..2999 : ProtoOfMilli(a)[1] <= ProtoOfMilli(a + 1)[1] /\ ProtoOfMilli(a)[3] >= ProtoOfMilli(a + 1)[3]

\* waiting rule: the gap after an event is the draw if positive, else the mean
WaitOf(draw, mean) == IF draw > 0 THEN draw ELSE mean
NumOps(draw) == IF draw < 1 THEN 1 ELSE draw
PrioOfValue(v) == IF v = 1 THEN "Q" ELSE IF v = 2 THEN "I" ELSE "B"
=============================================================================
