SPECIFICATION Spec
CONSTANTS
  Policy = "priority"
  Cfg <- CfgPr1K
  Shapes <- ShapesA
  NPipes = 2
  MaxTick = 16
  Prios = {"B","Q"}
  ArrTicks = {0,1,2,3}
INVARIANT C08_NoCrash
INVARIANT C08_Admissible
INVARIANT C01_ParentsDone
INVARIANT C03_Conservation
INVARIANT Inv17
INVARIANT Inv18
INVARIANT Inv16
INVARIANT Inv12
INVARIANT C06_NotWhileUnfinished
INVARIANT C06_FinishTick
INVARIANT C06_Counters
PROPERTY C06_CompleteOnce
