-------------------------------- MODULE Tools --------------------------------
(* C20, model side: snap and jitter as row transformations over exact rationals, enumerated on a small
   grid (arrival k/D seconds, D a fixed denominator; tick rates 1..MaxTps; up to MaxRows pipelines).
   Invariants are the sentences of the property; TraceTools.tla checks the same on runs of the real tools. *)
EXTENDS Integers, Sequences, FiniteSets, TLC
CONSTANTS D, MaxK, MaxTps, MaxRows, Deltas
VARIABLES rows, tps, jit
vars == <<rows, tps, jit>>
\* a rational is <<num, den>>
Le(a, b) == a[1] * b[2] <= b[1] * a[2]
Lt(a, b) == a[1] * b[2] < b[1] * a[2]
Eq(a, b) == a[1] * b[2] = b[1] * a[2]
Sub(a, b) == <<a[1] * b[2] - b[1] * a[2], a[2] * b[2]>>
Snap(a, t) == <<(a[1] * t) \div a[2], t>>                     \* floor(a*t)/t
OnGrid(a, t) == (a[1] * t) % a[2] = 0
NonDecr(q) == \A i \in 1..(Len(q) - 1) : Le(q[i], q[i + 1])
Init == /\ tps \in 1..MaxTps
        /\ rows \in UNION {{q \in [1..n -> {<<k, D>> : k \in 0..MaxK}] : NonDecr(q)} : n \in 1..MaxRows}
        /\ jit \in [1..MaxRows -> Deltas]                       \* any jitter amounts the random source may produce, in units of 1/D
Next == UNCHANGED vars
Spec == Init /\ [][Next]_vars

Snapped == [i \in 1..Len(rows) |-> Snap(rows[i], tps)]
C20_SnapNeverUp == \A i \in 1..Len(rows) : Le(Snapped[i], rows[i])
C20_SnapLessThanOneTick == \A i \in 1..Len(rows) : Lt(Sub(rows[i], Snapped[i]), <<1, tps>>)
C20_SnapOnGridUnchanged == \A i \in 1..Len(rows) : OnGrid(rows[i], tps) => Eq(Snapped[i], rows[i])
C20_SnapIdempotent == \A i \in 1..Len(rows) : Eq(Snap(Snapped[i], tps), Snapped[i])
C20_SnapKeepsOrder == NonDecr(Snapped)
\* jitter: add jit[i]/D to row i, then write the pipelines in ascending order of the new value (stable)
Jittered == [i \in 1..Len(rows) |-> <<rows[i][1] + jit[i], D>>]
RECURSIVE InsertSorted(_, _)
InsertSorted(sorted, x) == IF sorted = <<>> THEN <<x>> ELSE IF Lt(x[2], Head(sorted)[2]) THEN <<x>> \o sorted ELSE <<Head(sorted)>> \o InsertSorted(Tail(sorted), x)
RECURSIVE SortRows(_, _)
SortRows(todo, acc) == IF todo = <<>> THEN acc ELSE SortRows(Tail(todo), InsertSorted(acc, Head(todo)))
JitOut == SortRows([i \in 1..Len(rows) |-> <<i, Jittered[i]>>], <<>>)
C20_JitterBounds == \A i \in 1..Len(rows) : Le(rows[i], Jittered[i]) /\ Le(Sub(Jittered[i], rows[i]), <<CHOOSE m \in Deltas : \A x \in Deltas : x <= m, D>>)
C20_JitterAscending == \A i \in 1..(Len(JitOut) - 1) : Le(JitOut[i][2], JitOut[i + 1][2])
C20_JitterKeepsPipelines == {JitOut[i][1] : i \in 1..Len(JitOut)} = 1..Len(rows) /\ Len(JitOut) = Len(rows)
C20_JitterStable == \A i, j \in 1..Len(JitOut) : (i < j /\ Eq(JitOut[i][2], JitOut[j][2])) => JitOut[i][1] < JitOut[j][1]
=============================================================================
