SPECIFICATION Spec
POSTCONDITION Consumed
VIEW Position
