------------------------------ MODULE TraceTools ------------------------------
(* C20: the trace tools as row-sequence transformations, and the monitor of their real runs.

   snap    a' = floor(a * tps) / tps on the exact decimal: never up, moved by less than one tick, a time already
           on a boundary is unchanged (hence idempotent); every pipeline and every other column intact
   jitter  a' - a in [0, delta], reproducible for a seed, pipelines written in ascending a' (stable), nothing else changes
   sample  workload i is the generator's output for seed start+i; different samples are different workloads

   Arrival values are exact decimals num/den (the text of the file).  n = floor(a*tps) is a certificate re-checked here. *)
EXTENDS Integers, Sequences, FiniteSets, TLC, BigNat, Json, IOUtils

TraceLog == ndJsonDeserialize(IOEnv.TRACE_FILE)
VARIABLE l
RViol == 1 RLines == 2 RTraces == 3 RSnapRows == 10 RSnapOnGrid == 11 RJitRows == 12 RSamples == 13 RSnapMoved == 14 RJitReordered == 15 RHigh == 16
Regs == {1, 2, 3} \cup 10..16
Bump(r, n) == TLCSet(r, TLCGet(r) + n)
Flag(e, name, ok, detail) == IF ok THEN TRUE ELSE PrintT(<<"VIOL", e.tid, 0, name, detail>>) /\ Bump(RViol, 1)

\* arrival values are exact decimals num/den given as BigNat limb sequences (a float written with 17 digits does not fit 31 bits)
I(n) == BNFromInt(n)
M3(a, b, c) == BNMul(a, BNMul(b, c))
E12 == <<0, 0, 0, 1>>
\* n = floor(num/den * tps)
FloorCert(n, num, den, tps) == n >= 0 /\ BNLe(BNMul(I(n), den), BNMul(num, I(tps))) /\ BNLt(BNMul(num, I(tps)), BNMul(I(n + 1), den))
\* x = num/den equals n/tps exactly
IsTick(n, num, den, tps) == BNCmp(BNMul(num, I(tps)), BNMul(I(n), den)) = 0
AbsDiffLe(A, B, C) == IF BNLe(A, B) THEN BNLe(B, BNAdd(A, C)) ELSE BNLe(A, BNAdd(B, C))      \* |A - B| <= C
\* x = num/den equals n/tps up to the rounding of a float written with 17 digits:  |num*tps - n*den| * 10^12 <= n*den
NearTick(n, num, den, tps) == AbsDiffLe(BNMul(BNMul(num, I(tps)), E12), BNMul(BNMul(I(n), den), E12), BNMul(I(n), den))
RatLe(n1, d1, n2, d2) == BNLe(BNMul(n1, d2), BNMul(n2, d1))          \* n1/d1 <= n2/d2
RatEq(n1, d1, n2, d2) == BNCmp(BNMul(n1, d2), BNMul(n2, d1)) = 0

\* rows: [pid, arr |-> <<has, num, den>>, rest |-> string of the other columns]
SameButArrival(a, b) == Len(a) = Len(b) /\ \A i \in 1..Len(a) : a[i].pid = b[i].pid /\ a[i].rest = b[i].rest /\ a[i].arr[1] = b[i].arr[1]

CheckSnap(e) ==
  LET inp == e.inp out == e.out n == Len(inp) IN
  /\ Bump(RTraces, 1) /\ Bump(RHigh, IF e.tps >= 1000 THEN 1 ELSE 0)
  /\ Flag(e, "C20.Snap.KeepsRows", SameButArrival(inp, out), <<Len(inp), Len(out)>>)
  /\ SameButArrival(inp, out) =>
     \A i \in 1..n : inp[i].arr[1] =>
        LET a == inp[i].arr b == out[i].arr c == e.cert[i]
            det == <<"row", i, "in", a[2], a[3], "out", b[2], b[3], "tps", e.tps, "floor", c>> IN
        /\ Bump(RSnapRows, 1)
        /\ (IF FloorCert(c, a[2], a[3], e.tps) THEN TRUE ELSE PrintT(<<"PRECOND", e.tid, "floor certificate rejected", i>>))
        /\ FloorCert(c, a[2], a[3], e.tps) =>
           /\ Bump(RSnapOnGrid, IF IsTick(c, a[2], a[3], e.tps) THEN 1 ELSE 0) /\ Bump(RSnapMoved, IF IsTick(c, a[2], a[3], e.tps) THEN 0 ELSE 1)
           \* the snapped value is the tick boundary floor(a*tps)/tps (as a decimal it may be rounded in the last digit when tps does not divide a power of ten)
           /\ Flag(e, "C20.Snap.ToBoundary", NearTick(c, b[2], b[3], e.tps), det)
           /\ Flag(e, "C20.Snap.OnGridUnchanged", IsTick(c, a[2], a[3], e.tps) => RatEq(a[2], a[3], b[2], b[3]) \/ NearTick(c, b[2], b[3], e.tps), det)
           \* snapping twice equals snapping once
           /\ Flag(e, "C20.Snap.Idempotent", RatEq(e.out2[i].arr[2], e.out2[i].arr[3], b[2], b[3]), <<det, "twice", e.out2[i].arr>>)

CheckJitter(e) ==
  LET inp == e.inp out == e.out IN
  /\ Bump(RTraces, 1) /\ Bump(RJitRows, Len(inp))
  \* same pipelines, same rows per pipeline, other columns intact; out[i].src = index of the input row it came from (matched by pipeline id)
  /\ Flag(e, "C20.Jitter.KeepsRows", Len(inp) = Len(out) /\ {out[i].src : i \in 1..Len(out)} = 1..Len(inp)
                                     /\ \A i \in 1..Len(out) : out[i].pid = inp[out[i].src].pid /\ out[i].rest = inp[out[i].src].rest /\ out[i].arr[1] = inp[out[i].src].arr[1],
          <<Len(inp), Len(out)>>)
  /\ (Len(inp) = Len(out) /\ {out[i].src : i \in 1..Len(out)} = 1..Len(inp)) =>
     /\ \A i \in 1..Len(out) : out[i].arr[1] =>
          LET a == inp[out[i].src].arr b == out[i].arr IN
          \* 0 <= a' - a <= delta   (delta = dnum/dden; one part in 10^12 of slack for the float addition)
          /\ Flag(e, "C20.Jitter.NotEarlier", RatLe(a[2], a[3], b[2], b[3]), <<"pipeline", out[i].pid, a, b>>)
          /\ Flag(e, "C20.Jitter.WithinDelta",
                  BNLe(BNMul(M3(b[2], a[3], e.dden), E12),
                       BNAdd(BNMul(BNAdd(M3(a[2], b[3], e.dden), M3(e.dnum, a[3], b[3])), E12), M3(BNAdd(b[2], <<1>>), a[3], e.dden))),
                  <<"pipeline", out[i].pid, a, b, "delta", e.dnum, e.dden>>)
     \* pipelines are written in ascending order of their new arrival; rows of one pipeline stay together and in order
     /\ Flag(e, "C20.Jitter.Ascending", \A i, j \in 1..Len(out) : (i < j /\ out[i].arr[1] /\ out[j].arr[1]) => RatLe(out[i].arr[2], out[i].arr[3], out[j].arr[2], out[j].arr[3]), "order")
     /\ Flag(e, "C20.Jitter.PipelinesContiguous", \A i \in 1..(Len(out) - 1) : out[i + 1].arr[1] \/ out[i + 1].src = out[i].src + 1, "rows of a pipeline")
     /\ Bump(RJitReordered, IF \E i \in 1..Len(out) : out[i].src # i THEN 1 ELSE 0)
  \* equal seeds give equal files; (different seeds may differ)
  /\ Flag(e, "C20.Jitter.Reproducible", e.same_again, "second run with the same seed differs")
  /\ Flag(e, "C20.Jitter.ReproducibleAcrossProcesses", e.same_cross, "the same seed in another interpreter (different string hashing) gives a different file")

CheckSample(e) ==
  /\ Bump(RTraces, 1) /\ Bump(RSamples, Len(e.samples))
  \* sample i is the generator's output for seed start+i (files compared as text by the harness: digest equality), and samples differ
  /\ Flag(e, "C20.Sample.SeedIsStartPlusI", \A i \in 1..Len(e.samples) : e.samples[i] = e.expected[i], <<"samples", e.samples, "gentrace(start+i)", e.expected, "start", e.start>>)
  /\ Flag(e, "C20.Sample.Differ", \A i, j \in 1..Len(e.samples) : i # j => e.samples[i] # e.samples[j], e.samples)

Init == l = 1 /\ \A r \in Regs : TLCSet(r, 0)
Next == /\ l <= Len(TraceLog)
        /\ LET e == TraceLog[l] IN CASE e.kind = "snap" -> CheckSnap(e) [] e.kind = "jitter" -> CheckJitter(e) [] e.kind = "sample" -> CheckSample(e)
        /\ TLCSet(RLines, l) /\ l' = l + 1
Spec == Init /\ [][Next]_l
Consumed == /\ PrintT(<<"COUNT", "runs", TLCGet(RTraces), "snap_rows", TLCGet(RSnapRows), "snap_on_grid", TLCGet(RSnapOnGrid), "snap_moved", TLCGet(RSnapMoved),
                        "jitter_rows", TLCGet(RJitRows), "jitter_reordered_files", TLCGet(RJitReordered), "samples", TLCGet(RSamples), "rate_ge_1000", TLCGet(RHigh)>>)
            /\ PrintT(<<"SUMMARY", "viol", TLCGet(RViol), "lines", TLCGet(RLines), "traces", TLCGet(RTraces)>>)
=============================================================================
