------------------------------ MODULE ReplayOps ------------------------------
(* C13: replaying a trace.  The workload cursor as a specification:

     Tick t delivers exactly the not-yet-delivered rows i with ArrivalTick(a_i) <= t, in file order,
     ArrivalTick(a) = the first tick whose start (t / tps seconds) is at or after a  =  ceil(a * tps)

   and its trace monitor: one line = one replay of a CSV by the real CSVWorkloadReader + WorkloadTrace
   (rows in arrival order; arrival as an exact decimal num/den; what each tick delivered).

   Float band (none for on-grid decimals): only an arrival that is NOT on a tick boundary but within
   1e-12 (relative) above one may also be delivered at that boundary's tick.                          *)
EXTENDS Integers, Sequences, FiniteSets, TLC, BigNat

(* ---------------- exact arrival tick: certificate T is checked, never computed by division ---------------- *)
\* arrival a = num/den with num, den BigNat limb sequences (an arrival with nine decimals does not fit 31 bits); T, tps plain integers
I(n) == BNFromInt(n)
\* T = ceil(num/den * tps)   <=>   (T-1) * den < num * tps <= T * den      (T >= 0)
CeilOK(T, num, den, tps) ==
  /\ T >= 0
  /\ BNLe(BNMul(num, I(tps)), BNMul(I(T), den))
  /\ (T = 0 \/ BNLt(BNMul(I(T - 1), den), BNMul(num, I(tps))))
OnGrid(T, num, den, tps) == BNCmp(BNMul(num, I(tps)), BNMul(I(T), den)) = 0
\* off the grid but within float rounding (1e-12 relative; a double carries 1.1e-16) above the previous boundary T-1:
\* 0 < num*tps - (T-1)*den <= 1e-12 * (T-1)*den
E12 == <<0, 0, 0, 1>>
NearlyPrev(T, num, den, tps) ==
  T >= 2 /\ BNLe(BNMul(BNMul(num, I(tps)), E12), BNMul(BNMul(I(T - 1), den), BNAdd(E12, <<1>>)))
=============================================================================
