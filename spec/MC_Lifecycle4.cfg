SPECIFICATION Spec
CONSTANTS
  MaxN = 4
  PrintEdges = FALSE
INVARIANT C02_CountsAreHistogram
INVARIANT C01_RunningNeedsParents
PROPERTY C02_CompletedFinal
PROPERTY C02_OnlyTableMoves
PROPERTY C02_OneAtATime
