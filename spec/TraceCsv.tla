------------------------------- MODULE TraceCsv -------------------------------
(* C14, binding side: workloads written by the real WorkloadTraceGenerator + CSVWorkloadWriter and read back by the
   real CSVWorkloadReader, against Parse/Unparse of CsvOps; malformed files must be refused (any exception counts). *)
EXTENDS CsvOps, Json, IOUtils
TraceLog == ndJsonDeserialize(IOEnv.TRACE_FILE)
VARIABLE l
RViol == 1 RLines == 2 RTraces == 3 RPipes == 10 ROps == 11 RMulti == 12 RMal == 13 RMalRefused == 14 RMemZero == 15 RMemUnset == 16
Regs == {1, 2, 3} \cup 10..16
Bump(r, n) == TLCSet(r, TLCGet(r) + n)
Flag(e, name, ok, detail) == IF ok THEN TRUE ELSE PrintT(<<"VIOL", e.tid, 0, name, detail>>) /\ Bump(RViol, 1)
ArrPattern(r) == [i \in 1..Len(r) |-> r[i].arr # ""]
Strip(w) == [k \in 1..Len(w) |-> [w[k] EXCEPT !.arr = ""]]
RECURSIVE SumLen(_)
SumLen(w) == IF w = <<>> THEN 0 ELSE Len(Head(w).ops) + SumLen(Tail(w))

CheckWritten(e) ==
  \* what the writer wrote is the documented format of the workload it was given
  /\ Flag(e, "C14.WriterFormat", NoArr(e.rows) = NoArr(Unparse(e.w)) /\ ArrPattern(e.rows) = ArrPattern(Unparse(e.w)),
          <<"written", NoArr(e.rows), "format", NoArr(Unparse(e.w))>>)
  \* what the reader made of those rows is what the specification's Parse makes of them, and it is the workload that was written
  /\ Flag(e, "C14.ReaderIsParse", WellFormed(e.rows) /\ e.backok /\ Strip(Parse(e.rows)) = Strip(e.back), <<"reader", e.back, "rows", e.rows>>)
  /\ Flag(e, "C14.RoundTrip", e.backok /\ Strip(e.back) = Strip(e.w), <<"read back", e.back, "written", e.w>>)
  /\ Flag(e, "C14.ArrivalText", e.backok => \A k \in 1..Len(e.back) : k <= Len(Groups(e.rows)) => e.back[k].arr = Groups(e.rows)[k][1].arr, "arrival values")
  \* read + write again reproduces every row apart from the arrival column
  /\ Flag(e, "C14.Reproduce", NoArr(e.rows2) = NoArr(e.rows) /\ ArrPattern(e.rows2) = ArrPattern(e.rows), <<"again", e.rows2, "first", e.rows>>)

CheckRoundTrip(e) ==
  /\ Bump(RTraces, 1) /\ Bump(RPipes, Len(e.w)) /\ Bump(ROps, SumLen(e.w))
  /\ Bump(RMulti, Cardinality({<<k, i>> \in UNION {{<<k, i>> : i \in 1..Len(e.w[k].ops)} : k \in 1..Len(e.w)} : Len(e.w[k].ops[i].par) >= 2}))
  /\ Bump(RMemZero, Cardinality({<<k, i>> \in UNION {{<<k, i>> : i \in 1..Len(e.w[k].ops)} : k \in 1..Len(e.w)} : e.w[k].ops[i].mem = "0.0"}))
  /\ Bump(RMemUnset, Cardinality({<<k, i>> \in UNION {{<<k, i>> : i \in 1..Len(e.w[k].ops)} : k \in 1..Len(e.w)} : e.w[k].ops[i].mem = ""}))
  \* every well-formed workload can be written
  /\ Flag(e, "C14.WriterAccepts", e.wrote, <<"the writer raised on a well-formed workload", e.err>>)
  /\ (e.wrote => CheckWritten(e))

CheckMalformed(e) ==
  /\ Bump(RTraces, 1) /\ Bump(RMal, 1) /\ Bump(RMalRefused, IF e.refused THEN 1 ELSE 0)
  /\ Flag(e, "C14.Refusal", e.refused <=> ~WellFormed(e.rows), <<"variant", e.variant, "refused", e.refused, "well-formed per spec", WellFormed(e.rows), e.rows>>)

Init == l = 1 /\ \A r \in Regs : TLCSet(r, 0)
Next == /\ l <= Len(TraceLog)
        /\ (IF TraceLog[l].kind = "roundtrip" THEN CheckRoundTrip(TraceLog[l]) ELSE CheckMalformed(TraceLog[l]))
        /\ TLCSet(RLines, l) /\ l' = l + 1
Spec == Init /\ [][Next]_l
Consumed == /\ PrintT(<<"COUNT", "files", TLCGet(RTraces), "pipelines", TLCGet(RPipes), "operators", TLCGet(ROps), "multi_parent_ops", TLCGet(RMulti),
                        "malformed_files", TLCGet(RMal), "malformed_refused", TLCGet(RMalRefused), "mem_explicit_zero", TLCGet(RMemZero), "mem_unset", TLCGet(RMemUnset)>>)
            /\ PrintT(<<"SUMMARY", "viol", TLCGet(RViol), "lines", TLCGet(RLines), "traces", TLCGet(RTraces)>>)
=============================================================================
