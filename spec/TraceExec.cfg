SPECIFICATION Spec
POSTCONDITION Consumed
