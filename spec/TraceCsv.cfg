SPECIFICATION Spec
POSTCONDITION Consumed
