SPECIFICATION Spec
POSTCONDITION Consumed
