SPECIFICATION Spec
POSTCONDITION Consumed
