SPECIFICATION Spec
CONSTANTS
  Policy = "priority"
  Cfg <- CfgPr1
  Shapes <- ShapesA
  NPipes = 2
  MaxTick = 16
  Prios = {"B","Q"}
  ArrTicks = {0,1,2,3}
INVARIANT W_NoSuspension
