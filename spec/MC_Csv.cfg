SPECIFICATION Spec
CONSTANTS
  Vals = {"1.0", "2.5"}
  MemVals = {"", "0.0", "3.0"}
  ArrVals = {"0.0", "1.5"}
  MaxPipes = 2
  MaxOps = 2
INVARIANT C14_RoundTrip
INVARIANT C14_Reproduce
INVARIANT C14_WriterIsWellFormed
INVARIANT C14_MalformedRefused
