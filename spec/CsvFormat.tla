------------------------------ MODULE CsvFormat ------------------------------
(* C14, model side: Parse/Unparse of CsvOps over EVERY small workload (all DAGs with up to two parents per
   operator, value tokens, memory unset / explicit zero / value), and the rule mutations of every file. *)
EXTENDS CsvOps
(* ---------------- model: every small workload ---------------- *)
CONSTANTS Vals, MemVals, MaxPipes, MaxOps, ArrVals
VARIABLE w
RECURSIVE DagPars(_)
DagPars(n) == IF n = 0 THEN {<<>>} ELSE {Append(d, s) : d \in DagPars(n - 1), s \in {<<>>} \cup {<<j>> : j \in 1..(n - 1)} \cup {<<j, k>> : j \in 1..(n - 1), k \in 1..(n - 1)}}
OpsOf(n) == {[i \in 1..n |-> [par |-> d[i], cpu |-> v[i], law |-> "const", mem |-> m[i], read |-> v[i]]] :
                 d \in {x \in DagPars(n) : \A i \in 1..n : \A a, b \in 1..Len(x[i]) : a < b => x[i][a] < x[i][b]},
                 v \in [1..n -> Vals], m \in [1..n -> MemVals]}
Pipes == UNION {{[prio |-> pr, arr |-> a, ops |-> o] : pr \in {"QUERY", "BATCH_PIPELINE"}, a \in ArrVals, o \in OpsOf(n)} : n \in 1..MaxOps}
Init == w \in UNION {[1..n -> Pipes] : n \in 1..MaxPipes}
Next == UNCHANGED w
Spec == Init /\ [][Next]_w

C14_RoundTrip == Parse(Unparse(w)) = w
C14_Reproduce == Unparse(Parse(Unparse(w))) = Unparse(w)
C14_WriterIsWellFormed == WellFormed(Unparse(w))
\* the six rule mutations of a well-formed file are each refused
MutFirstNoPrio(r) == [r EXCEPT ![1].prio = ""]
MutFirstNoArr(r) == [r EXCEPT ![1].arr = ""]
MutBadPrio(r) == [r EXCEPT ![1].prio = "URGENT"]
MutBadLaw(r) == [r EXCEPT ![Len(r)].law = "cubic"]
MutUndefinedParent(r) == [r EXCEPT ![Len(r)].parents = <<OpId(99)>>]
MutLaterPrio(r) == IF Len(Groups(r)[1]) >= 2 THEN [r EXCEPT ![2].prio = "QUERY"] ELSE MutBadPrio(r)
MutLaterArr(r) == IF Len(Groups(r)[1]) >= 2 THEN [r EXCEPT ![2].arr = "1.0"] ELSE MutFirstNoArr(r)
MutForwardParent(r) == [r EXCEPT ![1].parents = <<OpId(2)>>]
C14_MalformedRefused == LET r == Unparse(w) IN
  /\ Parse(MutFirstNoPrio(r)) = Refused /\ Parse(MutFirstNoArr(r)) = Refused /\ Parse(MutBadPrio(r)) = Refused
  /\ Parse(MutBadLaw(r)) = Refused /\ Parse(MutUndefinedParent(r)) = Refused /\ Parse(MutLaterPrio(r)) = Refused
  /\ Parse(MutLaterArr(r)) = Refused /\ Parse(MutForwardParent(r)) = Refused
=============================================================================
