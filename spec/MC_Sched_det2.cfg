SPECIFICATION Spec
CONSTANTS
  Policy = "overbook"
  Cfg <- CfgOver
  Shapes <- ShapesOne
  NPipes = 2
  MaxTick = 14
  Prios = {"B"}
  ArrTicks = {1}
INVARIANT C08_NoCrash
