SPECIFICATION DagTraceSpec
POSTCONDITION DagConsumed
