-------------------------- MODULE TraceReplayCheck --------------------------
(* C13, binding side: monitor for replays of CSV files by the real CSVWorkloadReader + WorkloadTrace,
   and for gentrace round trips. *)
EXTENDS ReplayOps, Json, IOUtils
(* ---------------- trace monitor ---------------- *)
TraceLog == ndJsonDeserialize(IOEnv.TRACE_FILE)
VARIABLE l
RViol == 1 RLines == 2 RTraces == 3 RPipes == 10 ROnGrid == 11 RBand == 12 RBeyond == 13 RSame == 14 RHigh == 15
Regs == {1, 2, 3} \cup 10..15
Bump(r, n) == TLCSet(r, TLCGet(r) + n)
\* a violation carries the pipeline and its expected/observed tick so that the known-findings matcher can look at THIS input
Flag(e, name, ok, detail) == IF ok THEN TRUE ELSE PrintT(<<"VIOL", e.tid, 0, name, detail>>) /\ Bump(RViol, 1)

\* e.rows[i] = [id, num, den, cert]  cert = harness certificate for ceil(a*tps);  e.deliv[i] = tick at which row i was delivered, -1 = never
CheckReplay(e) ==
  LET n == Len(e.rows) IN
  /\ Bump(RTraces, 1) /\ Bump(RPipes, n) /\ Bump(RHigh, IF e.tps >= 1000 THEN 1 ELSE 0)
  /\ (IF \A i \in 1..n : CeilOK(e.rows[i].cert, e.rows[i].num, e.rows[i].den, e.tps) THEN TRUE ELSE PrintT(<<"PRECOND", e.tid, "certificate rejected">>))
  /\ (\A i \in 1..n : CeilOK(e.rows[i].cert, e.rows[i].num, e.rows[i].den, e.tps)) =>
     /\ \A i \in 1..n :
          LET r == e.rows[i] T == r.cert d == e.deliv[i]
              grid == OnGrid(T, r.num, r.den, e.tps)
              band == ~grid /\ NearlyPrev(T, r.num, r.den, e.tps)
          IN /\ Bump(ROnGrid, IF grid THEN 1 ELSE 0) /\ Bump(RBand, IF band THEN 1 ELSE 0) /\ Bump(RBeyond, IF T >= e.maxticks THEN 1 ELSE 0)
             /\ IF T >= e.maxticks
                THEN Flag(e, "C13.AfterEndNotDelivered", d = -1 \/ (band /\ d = T - 1 /\ d < e.maxticks), <<"row", i, "arrival", r.num, r.den, "tps", e.tps, "expected", -1, "got", d>>)
                ELSE /\ Flag(e, "C13.Delivered", d >= 0, <<"row", i, "arrival", r.num, r.den, "tps", e.tps, "expected", T, "got", d, "sig", e.sig[i]>>)
                     /\ d >= 0 =>
                        /\ Flag(e, "C13.NotEarly", d >= T \/ (band /\ d = T - 1), <<"row", i, "arrival", r.num, r.den, "tps", e.tps, "expected", T, "got", d>>)
                        /\ Flag(e, "C13.FirstTick", d <= T, <<"row", i, "arrival", r.num, r.den, "tps", e.tps, "expected", T, "got", d, "sig", e.sig[i]>>)
     \* each pipeline at most once, and same-tick deliveries keep the file order
     /\ Flag(e, "C13.Once", \A i \in 1..n : e.count[i] <= 1, e.count)
     /\ Flag(e, "C13.FileOrder", \A i, j \in 1..n : (i < j /\ e.deliv[i] >= 0 /\ e.deliv[j] >= 0) =>
                                   (e.deliv[i] < e.deliv[j] \/ (e.deliv[i] = e.deliv[j] /\ e.pos[i] < e.pos[j])), <<e.deliv, e.pos>>)
     /\ Bump(RSame, Cardinality({i \in 1..(n - 1) : e.deliv[i] >= 0 /\ e.deliv[i] = e.deliv[i + 1]}))

\* gentrace round trip: generator tick vs replay tick of the same pipeline
CheckRoundTrip(e) ==
  /\ Bump(RTraces, 1) /\ Bump(RPipes, Len(e.gen))
  /\ Flag(e, "C13.RoundTrip.count", Len(e.gen) = Len(e.replay), <<Len(e.gen), Len(e.replay)>>)
  /\ Len(e.gen) = Len(e.replay) =>
       \A i \in 1..Len(e.gen) : Flag(e, "C13.RoundTrip.tick", e.gen[i] = e.replay[i],
                                     <<"pipeline", i, "generated_tick", e.gen[i], "replayed_tick", e.replay[i], "tps", e.tps, "sig", e.sig[i]>>)

TInit == l = 1 /\ \A r \in Regs : TLCSet(r, 0)
TNext == /\ l <= Len(TraceLog)
         /\ (IF TraceLog[l].kind = "replay" THEN CheckReplay(TraceLog[l]) ELSE CheckRoundTrip(TraceLog[l]))
         /\ TLCSet(RLines, l) /\ l' = l + 1
TSpec == TInit /\ [][TNext]_l
Consumed == /\ PrintT(<<"COUNT", "files", TLCGet(RTraces), "pipelines", TLCGet(RPipes), "on_grid", TLCGet(ROnGrid), "band", TLCGet(RBand),
                        "beyond_end", TLCGet(RBeyond), "same_tick_neighbours", TLCGet(RSame), "rate_ge_1000", TLCGet(RHigh)>>)
            /\ PrintT(<<"SUMMARY", "viol", TLCGet(RViol), "lines", TLCGet(RLines), "traces", TLCGet(RTraces)>>)
=============================================================================
