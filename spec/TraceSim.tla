------------------------------- MODULE TraceSim -------------------------------
(* C06: the statistics a run returns against an INDEPENDENT RECOUNT made from the events of that run
   (arrivals, decisions issued, results reported, operator states), as in SimStats:

     C06.CompleteOnce / NotWhileUnfinished / FinishTick
                        a pipeline's recorded finish tick is the tick its last operator completed; pipelines
                        with an unfinished operator have none
     C06.Partition      per-priority arrivals / completions partition the totals
     C06.Counters       created, assignments, suspensions, failures, per-error counts, containers completed
     C06.Latency        mean and p99 (numpy linear interpolation) over exactly the completed pipelines, exact rationals
     C06.Throughput     successful containers per simulated second
     C06.ContainerP99   p99 over the tick counts of all ended containers
     C06.EmptyIsNaN     empty classes report NaN
     C06.Uncontended    a lone pipeline with enough memory finishes in exactly the ticks its operators need       *)
EXTENDS Timing, TLC, FiniteSets, Json, IOUtils

TraceLog == ndJsonDeserialize(IOEnv.TRACE_FILE)
VARIABLES l, cfg, a
vars == <<l, cfg, a>>

RViol == 1 RLines == 2 RTraces == 3 RRuns == 10 RCompleted == 11 REmptyClass == 12 RNothing == 13 RFail == 14 RUncont == 15 RNoFinish == 16 RProbRuns == 17
Regs == {1, 2, 3} \cup 10..17
Bump(r, n) == TLCSet(r, TLCGet(r) + n)
Flag(e, name, ok, detail) == IF ok THEN TRUE ELSE PrintT(<<"VIOL", e.tid, e.t, name, detail>>) /\ Bump(RViol, 1)
RECURSIVE SumSeq(_)
SumSeq(q) == IF q = <<>> THEN 0 ELSE Head(q) + SumSeq(Tail(q))
Rng(q) == {q[i] : i \in 1..Len(q)}
RECURSIVE SetDone(_, _, _)      \* d with d[p] = t for the p in S (a few entries of a long sequence)
SetDone(d, S, t) == IF S = {} THEN d ELSE LET p == CHOOSE x \in S : TRUE IN SetDone([d EXCEPT ![p] = t], S \ {p}, t)

\* accumulators of one run
A0 == [prio |-> <<>>, arr |-> <<>>, nops |-> <<>>, done |-> <<>>,        \* per pipeline: priority, arrival tick, #ops, completion tick (-1)
       nasg |-> 0, nsus |-> 0, nfail |-> 0, nsucc |-> 0, errs |-> <<>>,   \* counters; errs = sequence of error strings of failed results
       born |-> <<>>, ctimes |-> <<>>, wl |-> <<>>, killed |-> <<>>]                        \* creation tick per container id; tick counts of ended containers

(* ---- order statistics without sorting: the k-th smallest (0-based) element of a sequence ---- *)
Kth(q, k) == CHOOSE v \in Rng(q) : Cardinality({i \in 1..Len(q) : q[i] < v}) <= k /\ k < Cardinality({i \in 1..Len(q) : q[i] <= v})
\* 100 * p99 (in ticks) by numpy's linear interpolation:  rank = 0.99 (n-1) = k + r/100
P99x100(q) == LET n == Len(q) k == (99 * (n - 1)) \div 100 r == (99 * (n - 1)) % 100 IN
              IF k + 1 >= n THEN 100 * Kth(q, n - 1) ELSE 100 * Kth(q, k) + r * (Kth(q, k + 1) - Kth(q, k))

\* observed figure `st` = <<tag, v>> (v in micro-units, or - above 2147 units, 32-bit integers - in milli-units) equals X / (D * tps) within 2 of its units
IsNum(st) == st[1] \in {"num", "milli"}
UnitOf(st) == IF st[1] = "milli" THEN 1000 ELSE 1000000
CloseTo(st, X, D, tps) ==
  /\ IsNum(st)
  /\ ProdCmp(<<IF st[2] >= 2 THEN st[2] - 2 ELSE 0, D, tps>>, <<X, UnitOf(st)>>) <= 0
  /\ ProdCmp(<<st[2] + 2, D, tps>>, <<X, UnitOf(st)>>) >= 0
StatOK(e, stat, q, kind) ==     \* stat = <<tag, v>>;  q = latencies in ticks
  IF q = <<>> THEN stat[1] = "nan"
  ELSE IF kind = "mean" THEN CloseTo(stat, SumSeq(q), Len(q), cfg.tps) ELSE CloseTo(stat, P99x100(q), 100, cfg.tps)

LatOf(sel(_)) == LET ps == SelectSeq([p \in 1..Len(a.prio) |-> p], LAMBDA p : sel(p) /\ a.done[p] >= 0) IN
                 [j \in 1..Len(ps) |-> a.done[ps[j]] - a.arr[ps[j]]]
ArrOf(sel(_)) == Cardinality({p \in 1..Len(a.prio) : sel(p)})

ClassOK(e, name, ps, sel(_)) ==
  /\ Flag(e, "C06.Partition." \o name, ps.arrival_count = ArrOf(sel) /\ ps.completion_count = Len(LatOf(sel)),
          <<ps.arrival_count, ArrOf(sel), ps.completion_count, Len(LatOf(sel))>>)
  /\ Flag(e, "C06.Latency.mean." \o name, StatOK(e, ps.mean, LatOf(sel), "mean"), <<ps.mean, LatOf(sel)>>)
  /\ Flag(e, "C06.Latency.p99." \o name, StatOK(e, ps.p99, LatOf(sel), "p99"), <<ps.p99, LatOf(sel)>>)
  /\ Bump(REmptyClass, IF LatOf(sel) = <<>> THEN 1 ELSE 0)

\* exact ticks an operator needs (step-mode inputs only): sum over segments, at least one
SegNeed(c, raw, cpus) == IoTicks(raw.read, c.U, c.tps) + CpuTicks(raw.law, cpus, raw.bnum, raw.bden, c.tps)
OpNeed(c, op, cpus) == LET t == SumSeq([k \in 1..Len(op.segs) |-> SegNeed(c, op.segs[k], cpus)]) IN IF t = 0 THEN 1 ELSE t

EndClauses(e) ==
  LET s == e.stats np == Len(a.prio) IN
  /\ Bump(RRuns, 1) /\ Bump(RCompleted, Cardinality({p \in 1..np : a.done[p] >= 0}))
  /\ Bump(RNothing, IF np = 0 THEN 1 ELSE 0) /\ Bump(RNoFinish, IF np > 0 /\ \A p \in 1..np : a.done[p] < 0 THEN 1 ELSE 0)
  \* what the simulator itself recorded on each pipeline
  /\ Flag(e, "C06.FinishTick", \A p \in 1..np : e.pipes[p][2] = a.done[p] /\ e.pipes[p][1] = a.arr[p], <<"recorded", e.pipes, "recount", a.done, a.arr>>)
  /\ Flag(e, "C06.NotWhileUnfinished", \A p \in 1..np : (e.pipes[p][2] >= 0) <=> (\A i \in 1..a.nops[p] : e.final_ost[p][i] = "completed"), e.pipes)
  /\ Flag(e, "C06.Counters.created", s.pipelines_created = np, <<s.pipelines_created, np>>)
  /\ Flag(e, "C06.Counters.assignments", s.assignments = a.nasg, <<s.assignments, a.nasg>>)
  /\ Flag(e, "C06.Counters.suspensions", s.suspensions = a.nsus, <<s.suspensions, a.nsus>>)
  /\ Flag(e, "C06.Counters.failures", s.failures = a.nfail, <<s.failures, a.nfail>>)
  /\ Flag(e, "C06.Counters.containers_completed", s.containers_completed = a.nsucc, <<s.containers_completed, a.nsucc>>)
  /\ Flag(e, "C06.Counters.errors",
          /\ \A j \in 1..Len(s.failure_error_counts) : s.failure_error_counts[j][2] = Cardinality({i \in 1..Len(a.errs) : a.errs[i] = s.failure_error_counts[j][1]})
          /\ Rng(a.errs) = {s.failure_error_counts[j][1] : j \in 1..Len(s.failure_error_counts)}, <<s.failure_error_counts, a.errs>>)
  /\ ClassOK(e, "all", s.pipelines_all, LAMBDA p : TRUE)
  /\ ClassOK(e, "query", s.pipelines_query, LAMBDA p : a.prio[p] = "Q")
  /\ ClassOK(e, "interactive", s.pipelines_interactive, LAMBDA p : a.prio[p] = "I")
  /\ ClassOK(e, "batch", s.pipelines_batch, LAMBDA p : a.prio[p] = "B")
  /\ Flag(e, "C06.Partition.sum", s.pipelines_all.arrival_count = s.pipelines_query.arrival_count + s.pipelines_interactive.arrival_count + s.pipelines_batch.arrival_count
                                 /\ s.pipelines_all.completion_count = s.pipelines_query.completion_count + s.pipelines_interactive.completion_count + s.pipelines_batch.completion_count, "sum")
  \* throughput = successful containers / duration (dur in micro-seconds, itself known to one micro-second):  obs_micro * dur_micro = nsucc * 10^12  within 2 micro
  /\ Flag(e, "C06.Throughput", IsNum(s.throughput) /\
          ProdCmp(<<IF s.throughput[2] >= 2 THEN s.throughput[2] - 2 ELSE 0, IF cfg.dur >= 1 THEN cfg.dur - 1 ELSE 0>>, <<a.nsucc, UnitOf(s.throughput), 1000000>>) <= 0 /\
          ProdCmp(<<s.throughput[2] + 2, cfg.dur + 1>>, <<a.nsucc, UnitOf(s.throughput), 1000000>>) >= 0, <<s.throughput, a.nsucc, cfg.dur>>)
  /\ Flag(e, "C06.ContainerP99", IF a.ctimes = <<>> THEN s.p99_latency[1] = "nan"
                                 ELSE CloseTo(s.p99_latency, P99x100(a.ctimes), 100, cfg.tps), <<s.p99_latency, a.ctimes>>)
  \* adjusted latency (SimulatorStats.adjusted_latency, printed by `eudoxia run`): class means weighted 10/5/1 by completions, divided by the completion rate
  /\ LET lq == LatOf(LAMBDA p : a.prio[p] = "Q") li == LatOf(LAMBDA p : a.prio[p] = "I") lb == LatOf(LAMBDA p : a.prio[p] = "B")
         A == 10 * SumSeq(lq) + 5 * SumSeq(li) + SumSeq(lb)
         W == 10 * Len(lq) + 5 * Len(li) + Len(lb)
         compl == Len(lq) + Len(li) + Len(lb)
     IN Flag(e, "C06.AdjustedLatency",
             IF compl = 0 THEN s.adjusted[1] = "inf"
             \* (figures above 2147 s come in milli-seconds - 32-bit integers -, and beyond two million seconds only as "huge")
             ELSE LET unit == IF s.adjusted[1] = "milli" THEN 1000 ELSE 1000000 IN
                  \/ s.adjusted[1] = "huge" /\ ProdCmp(<<A, np>>, <<2000000, W, compl, cfg.tps>>) >= 0
                  \/ /\ s.adjusted[1] \in {"num", "milli"}
                     /\ ProdCmp(<<IF s.adjusted[2] >= 2 THEN s.adjusted[2] - 2 ELSE 0, W, compl, cfg.tps>>, <<A, np, unit>>) <= 0
                     /\ ProdCmp(<<s.adjusted[2] + 2, W, compl, cfg.tps>>, <<A, np, unit>>) >= 0,
             <<s.adjusted, "weighted latency ticks", A, "weighted count", W, "completed", compl, "arrived", np>>)
  \* C15 seen through a whole simulation (run_simulator builds the generator from the parameter set): a class with probability 0
  \* never arrives, and with probability 1 nothing else does
  /\ ("probs" \in DOMAIN cfg =>
        LET cls == <<"I", "Q", "B">> tot == cfg.probs[1] + cfg.probs[2] + cfg.probs[3] IN
        /\ Bump(RProbRuns, 1)
        /\ Flag(e, "C15.ZeroProbNeverArrives", \A j \in 1..3 : cfg.probs[j] = 0 => ArrOf(LAMBDA p : a.prio[p] = cls[j]) = 0,
                <<"probabilities (I, Q, B)", cfg.probs, "arrivals", [j \in 1..3 |-> ArrOf(LAMBDA p : a.prio[p] = cls[j])]>>)
        /\ Flag(e, "C15.CertainClassOnly", \A j \in 1..3 : (cfg.probs[j] > 0 /\ cfg.probs[j] = tot) => ArrOf(LAMBDA p : a.prio[p] = cls[j]) = np,
                <<"probabilities (I, Q, B)", cfg.probs, "arrivals", [j \in 1..3 |-> ArrOf(LAMBDA p : a.prio[p] = cls[j])]>>))
  /\ (e.uncontended =>
        /\ Bump(RUncont, 1)
        /\ Flag(e, "C06.Uncontended", np = 1 /\ a.done[1] >= 0 /\
                a.done[1] - a.arr[1] + 1 = SumSeq([i \in 1..Len(a.wl[1].ops) |-> OpNeed(cfg, a.wl[1].ops[i], cfg.cpucap)]),
                <<"finish", a.done, "arrival", a.arr, "needs", [i \in 1..Len(a.wl[1].ops) |-> OpNeed(cfg, a.wl[1].ops[i], cfg.cpucap)]>>))

Step(e) ==
  CASE e.ev = "hdr" -> cfg' = e.cfg /\ a' = A0 /\ Bump(RTraces, 1)
    [] e.ev = "arrive" ->
         /\ a' = [a EXCEPT !.prio = Append(@, e.wl.prio), !.arr = Append(@, e.t), !.nops = Append(@, Len(e.wl.ops)), !.done = Append(@, -1),
                           !.wl = Append(@, e.wl)]
         /\ UNCHANGED cfg
    [] e.ev = "round" ->
         /\ a' = [a EXCEPT !.nasg = @ + Len(e.asg), !.nsus = @ + Len(e.sus),
                           !.born = @ \o [j \in 1..Len(e.asg) |-> e.t]]
         /\ UNCHANGED cfg
    [] e.ev = "exec" ->
         LET res == e.obs.results
             \* lean recordings (thousands of pipelines) report only the pipelines whose operator states changed: <<p, states>>
             newly == IF "ostd" \in DOMAIN e.obs
                      THEN {d[1] : d \in {x \in Rng(e.obs.ostd) : a.done[x[1]] < 0 /\ \A i \in 1..a.nops[x[1]] : x[2][i] = "completed"}}
                      ELSE {p \in 1..Len(a.prio) : a.done[p] < 0 /\ \A i \in 1..a.nops[p] : e.obs.ost[p][i] = "completed"}
         IN /\ Bump(RFail, Cardinality({j \in 1..Len(res) : res[j].err # ""}))
            /\ a' = [a EXCEPT !.nfail = @ + Cardinality({j \in 1..Len(res) : res[j].err # ""}),
                              !.nsucc = @ + Cardinality({j \in 1..Len(res) : res[j].err = ""}),
                              !.errs = @ \o SelectSeq([j \in 1..Len(res) |-> res[j].err], LAMBDA x : x # ""),
                              !.done = SetDone(a.done, newly, e.t),
                              \* ticks a container has run: from the tick it was created to the tick of its result - or to the tick before
                              \* it was killed from outside (the reaping tick does not advance it any more)
                              !.ctimes = @ \o [j \in 1..Len(res) |-> IF res[j].cid \in 1..Len(a.born)
                                                                       THEN (IF \E x \in Rng(a.killed) : x[1] = res[j].cid
                                                                             THEN (CHOOSE x \in Rng(a.killed) : x[1] = res[j].cid)[2] - a.born[res[j].cid]
                                                                             ELSE e.t - a.born[res[j].cid] + 1)
                                                                       ELSE -1]]
            /\ UNCHANGED cfg
    [] e.ev = "kill" -> a' = [a EXCEPT !.killed = Append(@, <<e.cid, e.t>>)] /\ UNCHANGED cfg          \* Container.kill() from outside, before tick e.t
    [] e.ev = "end" /\ e.ok -> EndClauses(e) /\ UNCHANGED <<cfg, a>>
    [] OTHER -> UNCHANGED <<cfg, a>>
Init == l = 1 /\ cfg = [mode |-> "none"] /\ a = A0 /\ \A r \in Regs : TLCSet(r, 0)
Next == l <= Len(TraceLog) /\ Step(TraceLog[l]) /\ TLCSet(RLines, l) /\ l' = l + 1
Spec == Init /\ [][Next]_vars
\* the monitor is deterministic: the position in the log identifies the state (TLC then fingerprints one integer instead of the accumulators)
Position == l
Consumed == /\ PrintT(<<"COUNT", "runs", TLCGet(RRuns), "completed_pipelines", TLCGet(RCompleted), "empty_classes", TLCGet(REmptyClass), "runs_nothing_arrives", TLCGet(RNothing),
                        "runs_nothing_finishes", TLCGet(RNoFinish), "failures", TLCGet(RFail), "uncontended_runs", TLCGet(RUncont), "runs_with_probabilities", TLCGet(RProbRuns)>>)
            /\ PrintT(<<"SUMMARY", "viol", TLCGet(RViol), "lines", TLCGet(RLines), "traces", TLCGet(RTraces)>>)
=============================================================================
