----------------------------- MODULE TraceReplay -----------------------------
(* C13, model side: the workload cursor of trace replay as a state machine over all sorted arrival
   sequences on a small grid (the mapping a -> tick itself is ReplayOps.CeilOK, checked on traces). *)
EXTENDS ReplayOps
(* ---------------- the cursor as a state machine (model-checked in MC_TraceReplay) ---------------- *)
CONSTANTS MaxTick, Arrivals      \* Arrivals: set of candidate arrival ticks (already mapped), used by the model only
VARIABLES rows, tick, delivered, cursor
mvars == <<rows, tick, delivered, cursor>>
\* rows: sequence of arrival ticks in non-decreasing order (the mapped arrival of each pipeline, file order)
SortedSeqs(n) == {q \in [1..n -> Arrivals] : \A i \in 1..(n - 1) : q[i] <= q[i + 1]}
MInit == /\ rows \in UNION {SortedSeqs(n) : n \in 0..3} /\ tick = 0 /\ delivered = <<>> /\ cursor = 1
RECURSIVE Ready(_, _, _)
Ready(r, c, t) == IF c > Len(r) \/ r[c] > t THEN <<>> ELSE <<c>> \o Ready(r, c + 1, t)
MNext == /\ tick < MaxTick
         /\ LET now == Ready(rows, cursor, tick) IN
            /\ delivered' = Append(delivered, now)
            /\ cursor' = cursor + Len(now)
         /\ tick' = tick + 1 /\ UNCHANGED rows
MSpec == MInit /\ [][MNext]_mvars
Flat(d) == LET RECURSIVE F(_) F(q) == IF q = <<>> THEN <<>> ELSE Head(q) \o F(Tail(q)) IN F(d)
C13_Once       == \A i, j \in 1..Len(Flat(delivered)) : i # j => Flat(delivered)[i] # Flat(delivered)[j]
C13_NotEarly   == \A t \in 1..Len(delivered) : \A j \in 1..Len(delivered[t]) : rows[delivered[t][j]] <= t - 1
C13_FirstTick  == \A t \in 1..Len(delivered) : \A j \in 1..Len(delivered[t]) : rows[delivered[t][j]] = t - 1 \/ (t = 1)
C13_FileOrder  == \A i \in 1..(Len(Flat(delivered)) - 1) : Flat(delivered)[i] < Flat(delivered)[i + 1]
C13_AllDue     == \A i \in 1..Len(rows) : rows[i] < tick => \E j \in 1..Len(Flat(delivered)) : Flat(delivered)[j] = i
C13_AfterEndNotDelivered == \A i \in 1..Len(rows) : rows[i] >= MaxTick => ~\E j \in 1..Len(Flat(delivered)) : Flat(delivered)[j] = i

=============================================================================
