------------------------------ MODULE TraceExec ------------------------------
(* Trace validation for the executor family (C01-C05, C09-C11): TLC steps the model-checked
   operators of EudoxiaOps along an ndjson log recorded from the REAL Executor and evaluates
   every clause at every event.  A total monitor: a false clause prints
        <<"VIOL", tid, t, clause, detail>>
   and validation continues from the observed state (Resync), so one deviation costs one
   line, not the rest of the trace.  POSTCONDITION prints <<"SUMMARY", ...>>.

   Events:  hdr (config + workload), arrive (a pipeline joins the workload), round (commands as
   issued + operator states after the Assignment objects were built), exec (results + full
   projected state after the tick), raise (an exception left the call), end.
   mode "step": predicted-vs-observed conformance + property clauses;
   mode "obs" : property clauses on the observed states only (inputs on float boundaries).      *)
EXTENDS EudoxiaOps, Timing, Json, IOUtils

TraceLog == ndJsonDeserialize(IOEnv.TRACE_FILE)

VARIABLES l,      \* next line
          s,      \* specification state (observable part = last observation)
          cfg, wl,
          cmds,   \* commands of the current round
          dead,   \* rest of this trace is skipped (after a raise / a rejected-but-executed command / desync)
          acct    \* observed result counters of this trace
vars == <<l, s, cfg, wl, cmds, dead, acct>>

\* TLCGet/TLCSet registers
RViol == 1  RLines == 2  RTraces == 3
RTicks == 10  RResults == 11  RFail == 12  RSusp == 13  RPoolKill == 14  RPoolKillMulti == 15  RPoolKillPartial == 16
RBand == 17  RRaise == 18  ROwnKill == 19  RSuspDone == 20  RSusp1 == 21  RRounds == 22  RMultiOp == 23  RReject == 24  RWentOn == 25  RExtKill == 26
Regs == {RViol, RLines, RTraces} \cup 10..26
Bump(r, n) == TLCSet(r, TLCGet(r) + n)

None == [ost |-> <<>>, pools |-> <<>>, ctr |-> <<>>, results |-> <<>>, klog |-> <<>>, crash |-> ""]
NoCfg == [mode |-> "none"]
Init == /\ l = 1 /\ s = None /\ cfg = NoCfg /\ wl = <<>> /\ cmds = [sus |-> <<>>, asg |-> <<>>] /\ dead = FALSE
        /\ acct = [succ |-> 0, fail |-> 0, maxcid |-> 0]
        /\ \A r \in Regs : TLCSet(r, 0)

Flag(e, name, ok, detail) == IF ok THEN TRUE ELSE PrintT(<<"VIOL", e.tid, e.t, name, detail>>) /\ Bump(RViol, 1)

(* ---- preparing the workload: tick counts are computed HERE from the decimal inputs ---- *)
PrepSeg(c, raw) ==
  [io    |-> IoTicks(raw.read, c.U, c.tps),
   cpu   |-> [n \in 1..c.cpucap |-> CpuTicks(raw.law, n, raw.bnum, raw.bden, c.tps)],
   fixed |-> raw.fixed, read |-> raw.read, grow |-> (20 * c.U) \div c.tps]
PrepPipe(c, raw) == [prio |-> raw.prio, arr |-> 0,
                     ops |-> [i \in 1..Len(raw.ops) |-> [par |-> raw.ops[i].par,
                                                         segs |-> IF c.mode = "step" THEN [k \in 1..Len(raw.ops[i].segs) |-> PrepSeg(c, raw.ops[i].segs[k])] ELSE <<>>]]]
\* stepping needs inputs that the float arithmetic of the code decides uniquely (harness obligation)
SegSteppable(c, raw) ==
  /\ raw.law \in RationalLaws /\ (20 * c.U) % c.tps = 0 /\ raw.readr = 0 /\ raw.fixedr = 0
  /\ ~IoOnBoundary(raw.read, c.U, c.tps)
  /\ \A n \in 1..c.cpucap : ~CpuOnBoundary(raw.law, n, raw.bnum, raw.bden, c.tps)
PipeSteppable(c, raw) == \A i \in 1..Len(raw.ops) : \A k \in 1..Len(raw.ops[i].segs) : SegSteppable(c, raw.ops[i].segs[k])

Tol == IF cfg.mode = "none" THEN 0 ELSE cfg.U                  \* 1e-6 GB in millionths of a unit
Abs(x) == IF x < 0 THEN -x ELSE x
Near(r) == Abs(r) <= Tol
\* (n1 + r1/10^6) - (n2 + r2/10^6) in millionths of a unit, saturated (no 32-bit overflow)
Diff(n1, r1, n2, r2) == IF n1 - n2 > 2 THEN 3000000 ELSE IF n1 - n2 < -2 THEN -3000000 ELSE (n1 - n2) * 1000000 + r1 - r2
EqQ(n1, r1, n2, r2) == Abs(Diff(n1, r1, n2, r2)) <= Tol
LeQ(n1, r1, n2, r2) == Diff(n1, r1, n2, r2) <= Tol

(* ---- observation helpers ---- *)
ObsCids(q) == [j \in 1..Len(q) |-> q[j].cid]
ObsSumCpu(p) == SumSeq([j \in 1..Len(p.active) |-> p.active[j].cpu]) + SumSeq([j \in 1..Len(p.suspending) |-> p.suspending[j].cpu])
ObsSumRam(p) == SumSeq([j \in 1..Len(p.active) |-> p.active[j].ram]) + SumSeq([j \in 1..Len(p.suspending) |-> p.suspending[j].ram])
ObsSumRamR(p) == SumSeq([j \in 1..Len(p.active) |-> p.active[j].ramr]) + SumSeq([j \in 1..Len(p.suspending) |-> p.suspending[j].ramr])
ObsSumMem(p) == SumSeq([j \in 1..Len(p.active) |-> p.active[j].mem])
ObsSumMemR(p) == SumSeq([j \in 1..Len(p.active) |-> p.active[j].memr])
ObsOst(e, o) == e.obs.ost[o[1]][o[2]]
ObsParentsDone(e, o) == \A j \in Range(wl[o[1]].ops[o[2]].par) : e.obs.ost[o[1]][j] = "completed"
Reach1(a) == Table[a]
Reach2(a) == UNION {Table[b] : b \in Table[a]}
Reach3(a) == UNION {Reach2(b) : b \in Table[a]}
Reach4(a) == UNION {Reach3(b) : b \in Table[a]}
ReachN(a) == Reach1(a) \cup Reach2(a) \cup Reach3(a) \cup Reach4(a)
\* states reachable over edges that need no container (building Assignment objects, with or without a refusal)
CtorReach(a) == IF a = "pending" THEN {"assigned", "failed"} ELSE IF a = "failed" THEN {"assigned"} ELSE IF a = "assigned" THEN {"failed"} ELSE {}

LiveObs(o) == UNION {{[cid |-> o.pools[k].active[j].cid, idx |-> o.pools[k].active[j].idx, ops |-> o.pools[k].active[j].ops] : j \in 1..Len(o.pools[k].active)}
                      \cup {[cid |-> o.pools[k].suspending[j].cid, idx |-> o.pools[k].suspending[j].idx, ops |-> o.pools[k].suspending[j].ops] : j \in 1..Len(o.pools[k].suspending)}
                      : k \in 1..cfg.np}
(* ---- property clauses on an observed post-tick state; need no stepping ---- *)
ObsClauses(e) ==
  LET o == e.obs IN
  /\ Flag(e, "C01.ParentsDone", \A x \in AllOpsOf(wl) : ObsOst(e, x) \in {"running", "completed"} => ObsParentsDone(e, x), "obs")
  /\ Flag(e, "C02.LegalMoves", \A x \in AllOpsOf(wl) : ObsOst(e, x) # Ost(s, x) => ObsOst(e, x) \in ReachN(Ost(s, x)), "obs")
  /\ Flag(e, "C02.CompletedFinal", \A x \in AllOpsOf(wl) : Ost(s, x) = "completed" => ObsOst(e, x) = "completed", "obs")
  /\ Flag(e, "C02.OneLiveContainer",
          \A x \in AllOpsOf(wl) : Cardinality({c \in LiveObs(o) : \E m \in (c.idx + 1)..Len(c.ops) : c.ops[m] = x}) <= 1, "obs")
  /\ \A k \in 1..cfg.np : LET p == o.pools[k] IN
       /\ Flag(e, "C03.ConservationCpu", p.acpu + ObsSumCpu(p) = cfg.cpucap, <<k, p.acpu, ObsSumCpu(p)>>)
       /\ Flag(e, "C03.ConservationRam", EqQ(p.aram + ObsSumRam(p), p.aramr + ObsSumRamR(p), cfg.ramcap, cfg.ramcapr),
               <<k, p.aram, ObsSumRam(p)>>)
       \* C10: a suspending container keeps its whole allocation, and exactly that allocation is freed when the write-out ends:
       \* while a write-out is in progress in this pool, or in the tick one finishes, the pool's books must balance
       /\ Flag(e, "C10.AllocationKeptThenFreedOnce",
               (Len(p.suspending) > 0 \/ (k <= Len(s.pools) /\ Len(p.suspended) > Len(s.pools[k].suspended))) =>
                  (p.acpu + ObsSumCpu(p) = cfg.cpucap /\ EqQ(p.aram + ObsSumRam(p), p.aramr + ObsSumRamR(p), cfg.ramcap, cfg.ramcapr)),
               <<k, "free", p.acpu, p.aram, "allocated to running and suspending", ObsSumCpu(p), ObsSumRam(p)>>)
       /\ Flag(e, "C03.NonNegative", p.acpu >= 0 /\ (~cfg.oc => LeQ(0, 0, p.aram, p.aramr)), <<k, p.acpu, p.aram>>)
       /\ Flag(e, "C04.WithinAlloc", \A j \in 1..Len(p.active) :
                  LeQ(p.active[j].mem, p.active[j].memr, p.active[j].ram, p.active[j].ramr), k)
       /\ Flag(e, "C04.PoolWithinCap", LeQ(ObsSumMem(p), ObsSumMemR(p), cfg.ramcap, cfg.ramcapr), <<k, ObsSumMem(p)>>)
       /\ Flag(e, "C04.ReportedIsSum", EqQ(p.cons, p.consr, ObsSumMem(p), ObsSumMemR(p)), <<k, p.cons, p.consr, ObsSumMem(p), ObsSumMemR(p)>>)
       /\ Flag(e, "C10.SuspLeftPositive", \A j \in 1..Len(p.suspending) : p.suspending[j].sleft >= 1, k)
       \* while a container is writing out, its unfinished operators stay SUSPENDING (not released early, not lost)
       /\ Flag(e, "C10.NoEarlyRelease", \A j \in 1..Len(p.suspending) : \A m \in (p.suspending[j].idx + 1)..Len(p.suspending[j].ops) :
                  ObsOst(e, p.suspending[j].ops[m]) = "suspending", <<k, p.suspending>>)
       /\ Flag(e, "C10.Keeps", \A j \in 1..Len(p.suspending) : LET c == p.suspending[j] IN
                  (c.cid \in 1..Len(s.ctr) /\ s.ctr[c.cid].ram > 0) =>
                     /\ c.cpu = s.ctr[c.cid].cpu /\ c.ram = s.ctr[c.cid].ram                                  \* keeps its whole allocation
                     /\ (c.cid \in Range(s.pools[k].suspending) => c.idx = s.ctr[c.cid].idx), k)              \* and makes no progress while writing out
  \* results: success <=> all completed; failure names an error and leaves completed prefix + failed suffix
  /\ Flag(e, "C09.ResultShape", \A j \in 1..Len(o.results) : LET r == o.results[j] IN
        IF r.err = "" THEN \A m \in 1..Len(r.ops) : ObsOst(e, r.ops[m]) = "completed"
        ELSE \E n \in 0..(Len(r.ops) - 1) : /\ \A m \in 1..n : ObsOst(e, r.ops[m]) = "completed"
                                            \* (operators failed by a kill from outside - any error but OOM - were failed between
                                            \*  two ticks and may have been handed out again before this tick reaps the container)
                                            /\ (r.err = "OOM" => \A m \in (n + 1)..Len(r.ops) : ObsOst(e, r.ops[m]) = "failed"), "obs")
  /\ Flag(e, "C09.ResultNotLive", \A j \in 1..Len(o.results) : \A k \in 1..cfg.np :
        o.results[j].cid \notin Range(ObsCids(o.pools[k].active)) \cup Range(ObsCids(o.pools[k].suspending)) \cup Range(o.pools[k].suspended), "obs")
  /\ Flag(e, "C09.ResultOnce", \A i, j \in 1..Len(o.results) : i # j => o.results[i].cid # o.results[j].cid, "obs")

\* accounting over the whole trace: containers seen = successes + failures + suspended + live
ObsMaxCid(o) == LET all == UNION {Range(ObsCids(o.pools[k].active)) \cup Range(ObsCids(o.pools[k].suspending)) \cup Range(o.pools[k].suspended) : k \in 1..cfg.np}
                            \cup {o.results[j].cid : j \in 1..Len(o.results)}
                IN IF all = {} THEN 0 ELSE CHOOSE m \in all : \A x \in all : x <= m
AcctAfter(e) == [maxcid |-> IF ObsMaxCid(e.obs) > acct.maxcid THEN ObsMaxCid(e.obs) ELSE acct.maxcid, succ |-> acct.succ + Cardinality({j \in 1..Len(e.obs.results) : e.obs.results[j].err = ""}),
                 fail |-> acct.fail + Cardinality({j \in 1..Len(e.obs.results) : e.obs.results[j].err # ""})]
AcctClause(e, created) ==
  LET o == e.obs a == AcctAfter(e)
      live == SumSeq([k \in 1..cfg.np |-> Len(o.pools[k].active) + Len(o.pools[k].suspending)])
      susp == SumSeq([k \in 1..cfg.np |-> Len(o.pools[k].suspended)])
  IN Flag(e, "C09.Accounting", created = a.succ + a.fail + susp + live, <<created, a.succ, a.fail, susp, live>>)

(* ---- C11 / C04 kill clauses: observed victims against the SPEC's demand figures of this tick ---- *)
KScoreGt(x, y) == ScoreGt(x, y)
KMem(kl, V) == SumSeq([j \in 1..Len(kl.cands) |-> IF kl.cands[j].cid \in V THEN kl.cands[j].mem ELSE 0])
KCand(kl, c) == kl.cands[CHOOSE j \in 1..Len(kl.cands) : kl.cands[j].cid = c]
KillClauses(e, pred) ==
  \A k \in 1..cfg.np :
    LET kl == pred.klog[k]
        \* (a failure naming another error than OOM is a kill from outside, not the work of the pool's killer)
        failed == {e.obs.results[j].cid : j \in {j \in 1..Len(e.obs.results) : e.obs.results[j].err = "OOM" /\ e.obs.results[j].pool = k}}
        V == failed \ kl.own                     \* pool-level victims as observed
        candIds == {kl.cands[j].cid : j \in 1..Len(kl.cands)}
    IN /\ Bump(ROwnKill, Cardinality(kl.own)) /\ Bump(RPoolKill, IF V # {} THEN 1 ELSE 0)
       /\ Bump(RPoolKillMulti, IF V # {} /\ Len(kl.cands) >= 2 THEN 1 ELSE 0)
       /\ Bump(RPoolKillPartial, IF V # {} /\ Cardinality(V) < Len(kl.cands) THEN 1 ELSE 0)
       /\ Flag(e, "C04.KillJustified", V # {} => (cfg.oc /\ kl.U >= cfg.ramcap), <<k, V, kl.U>>)
       /\ Flag(e, "C04.NoPoolKillWithoutOvercommit", ~cfg.oc => V = {}, <<k, V>>)
       /\ Flag(e, "C11.VictimsAreCandidates", V \subseteq candIds, <<k, V, candIds>>)
       /\ (V \subseteq candIds =>
            /\ Flag(e, "C11.NoKillIfFits", kl.U < cfg.ramcap => V = {}, <<k, V, kl.U>>)
            /\ Flag(e, "C11.HighestFirst", \A v \in V : \A j \in 1..Len(kl.cands) :
                       kl.cands[j].cid \notin V => ~KScoreGt(kl.cands[j], KCand(kl, v)), <<k, V, kl.cands>>)
            /\ Flag(e, "C11.Needed", V # {} => \E v \in V : /\ \A w \in V : ~KScoreGt(KCand(kl, v), KCand(kl, w))
                                                           /\ kl.U - KMem(kl, V \ {v}) >= cfg.ramcap, <<k, V, kl.U, kl.cands>>)
            /\ Flag(e, "C11.StopsWhenFits", kl.U > cfg.ramcap => (kl.U - KMem(kl, V) <= cfg.ramcap \/ V = candIds), <<k, V, kl.U, kl.cands>>))

(* ---- conformance: predicted state vs observation, field group by field group ---- *)
PredActive(st, k) == [j \in 1..Len(st.pools[k].active) |-> LET c == st.ctr[st.pools[k].active[j]] IN
                        [cid |-> st.pools[k].active[j], idx |-> c.idx, mem |-> c.mem, ticks |-> c.ticks, cpu |-> c.cpu, ram |-> c.ram]]
PredCan(st, k) == [j \in 1..Len(st.pools[k].active) |-> <<st.pools[k].active[j], st.ctr[st.pools[k].active[j]].can>>]
ObsCan(p) == [j \in 1..Len(p.active) |-> <<p.active[j].cid, p.active[j].can>>]
ObsActive(p) == [j \in 1..Len(p.active) |-> LET c == p.active[j] IN
                        [cid |-> c.cid, idx |-> c.idx, mem |-> c.mem, ticks |-> c.ticks, cpu |-> c.cpu, ram |-> c.ram]]
PredSusp(st, k) == [j \in 1..Len(st.pools[k].suspending) |-> [cid |-> st.pools[k].suspending[j], sleft |-> st.ctr[st.pools[k].suspending[j]].sleft]]
ObsSusp(p) == [j \in 1..Len(p.suspending) |-> [cid |-> p.suspending[j].cid, sleft |-> p.suspending[j].sleft]]
PredResults(st) == [j \in 1..Len(st.results) |-> [cid |-> st.results[j].cid, err |-> st.results[j].err, pool |-> st.results[j].pool]]
ObsResults(o) == [j \in 1..Len(o.results) |-> [cid |-> o.results[j].cid, err |-> o.results[j].err, pool |-> o.results[j].pool]]

\* the ORDER of containers inside a pool's lists and of the results of one tick is promised by no property: compared as sets
\* (a pure order difference is reported as DRIFT, informational)
SetOf(q) == {q[i] : i \in 1..Len(q)}
SameSet(a, b) == Len(a) = Len(b) /\ SetOf(a) = SetOf(b)
ConfOK(e, pred) ==
  /\ pred.ost = e.obs.ost
  /\ \A k \in 1..cfg.np : LET op == e.obs.pools[k] IN
       /\ pred.pools[k].acpu = op.acpu /\ pred.pools[k].aram = op.aram /\ Near(op.aramr)
       /\ pred.pools[k].cons = op.cons /\ Near(op.consr)
       /\ SameSet(PredActive(pred, k), ObsActive(op)) /\ SameSet(PredCan(pred, k), ObsCan(op))
       /\ SameSet(PredSusp(pred, k), ObsSusp(op)) /\ SameSet(pred.pools[k].suspended, op.suspended)
       /\ pred.pools[k].ncomp = op.ncomp
  /\ SameSet(PredResults(pred), ObsResults(e.obs))

ConfClauses(e, pred) ==
  /\ Flag(e, "conf.C02.ost", pred.ost = e.obs.ost, <<"pred", pred.ost, "obs", e.obs.ost>>)
  /\ \A k \in 1..cfg.np : LET op == e.obs.pools[k] IN
       /\ Flag(e, "conf.C03.free", pred.pools[k].acpu = op.acpu /\ pred.pools[k].aram = op.aram /\ Near(op.aramr),
               <<k, "pred", pred.pools[k].acpu, pred.pools[k].aram, "obs", op.acpu, op.aram, op.aramr>>)
       /\ Flag(e, "conf.C04.cons", pred.pools[k].cons = op.cons /\ Near(op.consr), <<k, "pred", pred.pools[k].cons, "obs", op.cons, op.consr>>)
       /\ (IF SameSet(PredActive(pred, k), ObsActive(op)) /\ PredActive(pred, k) # ObsActive(op) THEN PrintT(<<"DRIFT", e.tid, e.t, "order of active containers differs from the model">>) ELSE TRUE)
       /\ Flag(e, "conf.C05.ctr", SameSet(PredActive(pred, k), ObsActive(op)), <<k, "pred", PredActive(pred, k), "obs", ObsActive(op)>>)
       \* suspendable exactly right after a non-final operator finished (the spec knows the in-operator position)
       /\ Flag(e, "conf.C10.can", SameSet(PredCan(pred, k), ObsCan(op)), <<k, "pred", PredCan(pred, k), "obs", ObsCan(op)>>)
       /\ Flag(e, "conf.C10.lists", SameSet(PredSusp(pred, k), ObsSusp(op)) /\ SameSet(pred.pools[k].suspended, op.suspended),
               <<k, "pred", PredSusp(pred, k), pred.pools[k].suspended, "obs", ObsSusp(op), op.suspended>>)
       /\ Flag(e, "conf.C09.ncomp", pred.pools[k].ncomp = op.ncomp, <<k, pred.pools[k].ncomp, op.ncomp>>)
  /\ (IF SameSet(PredResults(pred), ObsResults(e.obs)) /\ PredResults(pred) # ObsResults(e.obs) THEN PrintT(<<"DRIFT", e.tid, e.t, "order of results differs from the model">>) ELSE TRUE)
  /\ Flag(e, "conf.C09.results", SameSet(PredResults(pred), ObsResults(e.obs)), <<"pred", PredResults(pred), "obs", ObsResults(e.obs)>>)

\* adopt the observation for everything observable, keep the hidden in-operator position where still meaningful
Resyncable(e, pred) ==
  \A k \in 1..cfg.np : LET op == e.obs.pools[k] IN
     (\A j \in 1..Len(op.active) : op.active[j].cid \in 1..Len(pred.ctr)) /\ (\A j \in 1..Len(op.suspending) : op.suspending[j].cid \in 1..Len(pred.ctr))
     /\ (\A j \in 1..Len(op.suspended) : op.suspended[j] \in 1..Len(pred.ctr))
Resync(e, pred) ==
  LET o == e.obs
      obsOf(cid) == CHOOSE x \in UNION {{<<k, j>> : j \in 1..Len(o.pools[k].active)} : k \in 1..cfg.np} : o.pools[x[1]].active[x[2]].cid = cid
      isAct(cid) == \E k \in 1..cfg.np : \E j \in 1..Len(o.pools[k].active) : o.pools[k].active[j].cid = cid
      susOf(cid) == CHOOSE x \in UNION {{<<k, j>> : j \in 1..Len(o.pools[k].suspending)} : k \in 1..cfg.np} : o.pools[x[1]].suspending[x[2]].cid = cid
      isSus(cid) == \E k \in 1..cfg.np : \E j \in 1..Len(o.pools[k].suspending) : o.pools[k].suspending[j].cid = cid
      fixCtr(cid) == LET c == pred.ctr[cid] IN
         IF isAct(cid) THEN LET a == o.pools[obsOf(cid)[1]].active[obsOf(cid)[2]] IN
              [c EXCEPT !.idx = a.idx, !.mem = a.mem, !.can = a.can, !.done = a.done, !.ticks = a.ticks,
                        !.seg = IF a.idx = c.idx THEN c.seg ELSE 0, !.i = IF a.idx = c.idx THEN c.i ELSE 0]
         ELSE IF isSus(cid) THEN [c EXCEPT !.sleft = o.pools[susOf(cid)[1]].suspending[susOf(cid)[2]].sleft]
         ELSE c
  IN [pred EXCEPT !.ost = o.ost,
                  !.ctr = [cid \in 1..Len(pred.ctr) |-> fixCtr(cid)],
                  !.pools = [k \in 1..cfg.np |-> [pred.pools[k] EXCEPT !.acpu = o.pools[k].acpu, !.aram = o.pools[k].aram, !.cons = o.pools[k].cons,
                                                                    !.active = ObsCids(o.pools[k].active), !.suspending = ObsCids(o.pools[k].suspending),
                                                                    !.suspended = o.pools[k].suspended, !.ncomp = o.pools[k].ncomp]],
                  !.crash = ""]

Hints(e, own, pool) == [own |-> IF own THEN Range(e.hint.oom) ELSE {}, pool |-> IF pool THEN Range(e.hint.oom) ELSE {},
             slen |-> UNION {{<<e.obs.pools[k].suspending[j].cid, e.obs.pools[k].suspending[j].slen>> : j \in 1..Len(e.obs.pools[k].suspending)} : k \in 1..cfg.np}]

RejectClause(reason) ==    \* the spec rejects, the code executed: which rule was not enforced
  CASE reason \in {"over_cpu", "over_ram"} -> "C03.RejectWhole"
    [] reason = "deps" -> "C01.RejectNotExecute"
    [] reason = "transition" -> "C02.RefuseIllegal"
    [] reason = "no_such_pool" -> "C09.UnknownPoolRejected"
    [] reason \in {"suspend_unknown", "suspend_not_boundary"} -> "C10.ElseRejected"
    [] reason = "nops" -> "C09.OperatorCount"
    [] OTHER -> "C09.BadAssignmentRejected"

StepExec(e) ==
  LET \* a quantity exactly on a limit admits both outcomes (C05): the prediction is the first admissible one that the
      \* observation matches; if none matches, the deviation is reported against the first
      hasBand == e.hint.oom # <<>>
      p11  == ExecTickH(cfg, wl, s, cmds.sus, cmds.asg, Hints(e, TRUE, TRUE))
      p00  == ExecTickH(cfg, wl, s, cmds.sus, cmds.asg, Hints(e, FALSE, FALSE))
      p01  == ExecTickH(cfg, wl, s, cmds.sus, cmds.asg, Hints(e, FALSE, TRUE))
      p10  == ExecTickH(cfg, wl, s, cmds.sus, cmds.asg, Hints(e, TRUE, FALSE))
      Good(p) == p.crash = "" /\ ConfOK(e, p)
      pred == IF ~hasBand \/ Good(p00) THEN p00 ELSE IF Good(p11) THEN p11 ELSE IF Good(p01) THEN p01 ELSE IF Good(p10) THEN p10 ELSE p00
      created == Len(pred.ctr)
  IN IF pred.crash # ""
     THEN /\ Flag(e, RejectClause(pred.crash), FALSE, <<"spec rejects with", pred.crash, "code executed", cmds>>)
          /\ s' = s /\ dead' = TRUE /\ acct' = acct
     ELSE /\ Bump(RTicks, 1) /\ Bump(RResults, Len(e.obs.results)) /\ Bump(RFail, Cardinality({j \in 1..Len(e.obs.results) : e.obs.results[j].err # ""}))
          /\ Bump(RSusp, Len(cmds.sus)) /\ Bump(RMultiOp, Cardinality({j \in 1..Len(cmds.asg) : Len(cmds.asg[j].ops) >= 2}))
          /\ Bump(RSuspDone, SumSeq([k \in 1..cfg.np |-> Len(pred.pools[k].suspended) - Len(s.pools[k].suspended)]))
          /\ Bump(RSusp1, Cardinality({j \in 1..Len(cmds.sus) : cmds.sus[j].cid \in 1..Len(pred.ctr) /\ pred.ctr[cmds.sus[j].cid].slen = 1}))
          /\ Bump(RBand, IF hasBand /\ ~Good(p00) /\ Good(pred) THEN 1 ELSE 0)
          /\ ObsClauses(e)
          /\ KillClauses(e, pred)
          /\ ConfClauses(e, pred)
          \* in the tick a suspension finishes: finished operators stay completed, the unfinished ones are pending (assignable again)
          /\ Flag(e, "C10.WorkIntact", \A k \in 1..cfg.np : \A cid \in Range(e.obs.pools[k].suspended) \ Range(s.pools[k].suspended) :
                     cid \in 1..Len(pred.ctr) => LET c == pred.ctr[cid] IN
                        /\ \A m \in 1..c.idx : ObsOst(e, c.ops[m]) = "completed"
                        /\ \A m \in (c.idx + 1)..Len(c.ops) : ObsOst(e, c.ops[m]) = "pending", "operators of a finished suspension")
          /\ Flag(e, "C09.OneContainerPerAssignment", ObsMaxCid(e.obs) <= created /\ created = Len(s.ctr) + Len(cmds.asg), <<ObsMaxCid(e.obs), created>>)
          /\ AcctClause(e, created)
          /\ acct' = AcctAfter(e)
          /\ IF ConfOK(e, pred) THEN s' = pred /\ dead' = FALSE
             ELSE IF Resyncable(e, pred) THEN s' = Resync(e, pred) /\ dead' = FALSE
             ELSE s' = pred /\ dead' = TRUE

LiveObsFull(o) == UNION {{[cid |-> o.pools[k].active[j].cid, idx |-> o.pools[k].active[j].idx, cpu |-> o.pools[k].active[j].cpu, ram |-> o.pools[k].active[j].ram] : j \in 1..Len(o.pools[k].active)}
                      \cup {[cid |-> o.pools[k].suspending[j].cid, idx |-> o.pools[k].suspending[j].idx, cpu |-> o.pools[k].suspending[j].cpu, ram |-> o.pools[k].suspending[j].ram] : j \in 1..Len(o.pools[k].suspending)}
                      : k \in 1..cfg.np}
ObsExec(e) ==   \* "obs" mode: no prediction; the spec state only carries the last observed operator states
  /\ Bump(RTicks, 1) /\ Bump(RResults, Len(e.obs.results)) /\ Bump(RFail, Cardinality({j \in 1..Len(e.obs.results) : e.obs.results[j].err # ""}))
  /\ ObsClauses(e)
  /\ AcctClause(e, AcctAfter(e).maxcid)
  /\ acct' = AcctAfter(e)
  /\ s' = [s EXCEPT !.ost = e.obs.ost,
                    !.pools = [k \in 1..cfg.np |-> [s.pools[k] EXCEPT !.active = ObsCids(e.obs.pools[k].active), !.suspending = ObsCids(e.obs.pools[k].suspending),
                                                                      !.suspended = e.obs.pools[k].suspended]],
                    !.ctr = [c \in 1..ObsMaxCid(e.obs) |->
                               IF \E x \in LiveObsFull(e.obs) : x.cid = c THEN (CHOOSE x \in LiveObsFull(e.obs) : x.cid = c)
                               ELSE IF c <= Len(s.ctr) THEN s.ctr[c] ELSE [cid |-> c, cpu |-> 0, ram |-> 0, idx |-> 0]]]
  /\ dead' = FALSE

Step(e) ==
  CASE e.ev = "hdr" ->
         /\ cfg' = e.cfg
         /\ wl' = [p \in 1..Len(e.wl) |-> PrepPipe(e.cfg, e.wl[p])]
         /\ s' = InitState(e.cfg, [p \in 1..Len(e.wl) |-> PrepPipe(e.cfg, e.wl[p])])
         /\ cmds' = [sus |-> <<>>, asg |-> <<>>] /\ dead' = FALSE /\ acct' = [succ |-> 0, fail |-> 0, maxcid |-> 0]
         /\ Bump(RTraces, 1)
         /\ (e.mode = "step" => \A p \in 1..Len(e.wl) :
               IF PipeSteppable(e.cfg, e.wl[p]) THEN TRUE ELSE PrintT(<<"PRECOND", e.tid, "pipeline not steppable", p>>))
    [] dead -> UNCHANGED <<s, cfg, wl, cmds, dead, acct>>
    [] e.ev = "arrive" ->
         /\ wl' = Append(wl, PrepPipe(cfg, e.wl))
         /\ s' = [s EXCEPT !.ost = Append(@, [i \in 1..Len(e.wl.ops) |-> "pending"])]
         /\ (cfg.mode = "step" => IF PipeSteppable(cfg, e.wl) THEN TRUE ELSE PrintT(<<"PRECOND", e.tid, "pipeline not steppable", e.p>>))
         /\ UNCHANGED <<cfg, cmds, dead, acct>>
    [] e.ev = "round" ->
         LET base == IF "pre" \in DOMAIN e THEN [s EXCEPT !.ost = e.pre.ost] ELSE s     \* sparse logs: states moved on since the last logged event
             pred == MkAssignments(wl, base, e.asg) IN
         /\ Bump(RRounds, 1)
         /\ (cfg.mode = "step" /\ "pre" \in DOMAIN e => Flag(e, "conf.C02.ost.pre", s.ost = e.pre.ost, <<"spec", s.ost, "obs", e.pre.ost>>))
         /\ IF e.raised # ""
            THEN /\ Bump(RReject, 1)
                 /\ Flag(e, "conf.raise.round", pred.crash # "", <<"code raised", e.raised, "spec accepts", e.asg>>)
                 \* what a refused construction leaves behind: no container is involved, so an operator either keeps its state or moved along
                 \* edges that need none (taken: pending/failed -> assigned; given up: assigned -> failed) - never assigned -> pending
                 /\ Flag(e, "C02.LegalMoves", \A x \in AllOpsOf(wl) : ObsOst(e, x) # Ost(base, x) => ObsOst(e, x) \in CtorReach(Ost(base, x)), "refused round")
                 /\ s' = s /\ dead' = TRUE
            ELSE IF pred.crash # ""
            THEN /\ Flag(e, RejectClause(pred.crash), FALSE, <<"spec rejects with", pred.crash, "code built the assignment", e.asg>>)
                 /\ s' = s /\ dead' = TRUE
            ELSE /\ Flag(e, "conf.C02.ost.round", pred.ost = e.obs.ost, <<"pred", pred.ost, "obs", e.obs.ost>>)
                 /\ Flag(e, "C02.LegalMoves", \A x \in AllOpsOf(wl) : ObsOst(e, x) # Ost(base, x) => ObsOst(e, x) \in ReachN(Ost(base, x)), "round")
                 /\ s' = [pred EXCEPT !.ost = e.obs.ost] /\ dead' = FALSE
         /\ cmds' = [sus |-> e.sus, asg |-> e.asg] /\ UNCHANGED <<cfg, wl, acct>>
    [] e.ev = "kill" ->      \* Container.kill(err) from outside, between two ticks: the unfinished operators fail at once
         LET pred == ExternalKill(cfg, wl, s, e.cid, e.err) IN
         /\ Bump(RExtKill, 1)
         /\ IF cfg.mode # "step" THEN s' = [s EXCEPT !.ost = e.obs.ost] /\ dead' = FALSE
            \* (the harness only kills containers the executor lists as running: if the model does not know that container as live, the two
            \*  disagree about which containers exist - e.g. two containers under one id)
            ELSE IF pred.crash # "" THEN Flag(e, "conf.C09.containers.kill", FALSE, <<"the executor lists container", e.cid, "as running; the model does not">>) /\ s' = s /\ dead' = TRUE
            ELSE /\ Flag(e, "conf.C02.ost.kill", pred.ost = e.obs.ost, <<"pred", pred.ost, "obs", e.obs.ost>>)
                 /\ Flag(e, "C02.LegalMoves", \A x \in AllOpsOf(wl) : ObsOst(e, x) # Ost(s, x) => ObsOst(e, x) \in ReachN(Ost(s, x)), "kill")
                 /\ s' = [pred EXCEPT !.ost = e.obs.ost] /\ dead' = FALSE
         /\ UNCHANGED <<cfg, wl, cmds, acct>>
    [] e.ev = "exec" ->
         /\ (IF cfg.mode = "step" THEN StepExec(e) ELSE ObsExec(e))
         /\ UNCHANGED <<cfg, wl, cmds>>
    [] e.ev = "raise" /\ e.where = "exec" ->
         LET ea == [tid |-> e.tid, t |-> e.t, obs |-> IF "after" \in DOMAIN e THEN e.after ELSE <<>>]
             \* (a suspension length exactly on a tick boundary admits both outcomes: the observed one is taken, as in StepExec)
             pred == IF "after" \in DOMAIN e THEN ExecTickH(cfg, wl, s, cmds.sus, cmds.asg, Hints(ea, FALSE, FALSE)) ELSE ExecTick(cfg, wl, s, cmds.sus, cmds.asg)
             \* the caller caught the refusal and goes on (the harness does this only when no pool ran before the refusal, so that no
             \* result was lost with the exception): the refused call is not a tick; what it leaves behind is the model's state at the
             \* point of refusal - the valid suspensions of the batch applied, nothing else
             goesOn == cfg.mode = "step" /\ "after" \in DOMAIN e /\ pred.crash \in {"over_cpu", "over_ram", "no_such_pool", "suspend_unknown", "suspend_not_boundary", "nops"}
             left == [pred EXCEPT !.crash = "", !.results = <<>>]
         IN
         /\ Bump(RRaise, 1) /\ Bump(RReject, 1)
         /\ (cfg.mode = "step" => Flag(e, "conf.raise.exec", pred.crash # "", <<"code raised", e.exc, e.msg, "spec accepts", cmds>>))
         /\ IF goesOn
            THEN /\ Bump(RWentOn, 1)
                 \* rejected as a whole: no container of a batch refused for overselling exists afterwards
                 /\ Flag(e, "C03.RejectWhole.after", pred.crash \in {"over_cpu", "over_ram"} => ObsMaxCid(ea.obs) <= Len(s.ctr), <<"containers before", Len(s.ctr), "largest id after", ObsMaxCid(ea.obs)>>)
                 /\ ConfClauses(ea, left)
                 /\ IF ConfOK(ea, left) THEN s' = left /\ dead' = FALSE
                    ELSE IF Resyncable(ea, left) THEN s' = Resync(ea, left) /\ dead' = FALSE
                    ELSE s' = s /\ dead' = TRUE
            ELSE s' = s /\ dead' = TRUE
         /\ UNCHANGED <<cfg, wl, cmds, acct>>
    [] e.ev = "end" /\ "final_ost" \in DOMAIN e ->
         \* the pipelines as the caller finds them after run_simulator has returned: nothing moved since the last tick, in particular a
         \* completed operator is still completed (operators only, per pipeline known to the trace)
         /\ Flag(e, "C02.CompletedFinal.afterRun",
                 \A p \in 1..Len(s.ost) : p <= Len(e.final_ost) /\ \A i \in 1..Len(s.ost[p]) :
                      /\ (s.ost[p][i] = "completed" => e.final_ost[p][i] = "completed")
                      /\ (e.final_ost[p][i] # s.ost[p][i] => e.final_ost[p][i] \in ReachN(s.ost[p][i])),
                 <<"last seen", s.ost, "after the run", e.final_ost>>)
         /\ UNCHANGED <<s, cfg, wl, cmds, dead, acct>>
    [] OTHER -> UNCHANGED <<s, cfg, wl, cmds, dead, acct>>

Next == /\ l <= Len(TraceLog)
        /\ Step(TraceLog[l])
        /\ TLCSet(RLines, l) /\ l' = l + 1
Spec == Init /\ [][Next]_vars

Consumed == /\ PrintT(<<"COUNT", "ticks", TLCGet(RTicks), "results", TLCGet(RResults), "failures", TLCGet(RFail), "suspends", TLCGet(RSusp),
                        "suspensions_finished", TLCGet(RSuspDone), "suspends_1tick", TLCGet(RSusp1), "own_kills", TLCGet(ROwnKill),
                        "poolkill_ticks", TLCGet(RPoolKill), "poolkill_multi", TLCGet(RPoolKillMulti), "poolkill_partial", TLCGet(RPoolKillPartial),
                        "band_resolved", TLCGet(RBand), "raises", TLCGet(RRaise), "rounds", TLCGet(RRounds), "multiop_assignments", TLCGet(RMultiOp),
                        "rejections", TLCGet(RReject), "went_on_after_refusal", TLCGet(RWentOn), "kills_from_outside", TLCGet(RExtKill)>>)
            /\ PrintT(<<"SUMMARY", "viol", TLCGet(RViol), "lines", TLCGet(RLines), "traces", TLCGet(RTraces)>>)
=============================================================================
