SPECIFICATION Spec
POSTCONDITION Consumed
