---------------------------- MODULE SchedPolicies ----------------------------
(* The shipped scheduling policies transcribed as pure operators (private queues as the record `priv`):
        naive, starter (the scheduler `eudoxia init -s` writes), overbook, priority-pool, priority.
   A CONSTANT module: it is instantiated by Sched.tla (model checking, wl a variable chosen in Init) and by
   TraceDrift.tla (the transcription stepped along recorded runs of the real policies).                      *)
EXTENDS EudoxiaOps, DagOps
CONSTANTS Policy, Cfg, NP, wl

Successful(st, p) == \A i \in 1..Len(wl[p].ops) : st.ost[p][i] = "completed"
HasFailed(st, p)  == \E i \in 1..Len(wl[p].ops) : st.ost[p][i] = "failed"
\* operators of pipeline p in the order of the runtime status (= DAG iterator order)
ParSets(p) == [i \in 1..Len(wl[p].ops) |-> Range(wl[p].ops[i].par)]
IterOrder(p) == ModelOrder(ParSets(p), Len(wl[p].ops))
GetOps(st, p, needParents) ==
  LET ord == IterOrder(p)
      ok(i) == st.ost[p][i] \in {"pending", "failed"} /\ (needParents => ParentsDone(wl, st, <<p, i>>))
      sel == SelectSeq(ord, ok)
  IN [j \in 1..Len(sel) |-> <<p, sel[j]>>]

(* ------------------------------------ naive ------------------------------------ *)
NaiveInit == [queue |-> <<>>]
RECURSIVE NaivePop(_, _, _, _)
NaivePop(st, q, rq, k) ==      \* inner while-loop for one pool: [st, q, rq, asg]
  IF q = <<>> THEN [st |-> st, q |-> q, rq |-> rq, asg |-> <<>>]
  ELSE LET p == Head(q) IN
       IF Successful(st, p) \/ HasFailed(st, p) THEN NaivePop(st, Tail(q), rq, k)
       ELSE LET ops == IF Cfg.multi /\ Policy # "starter" THEN GetOps(st, p, FALSE)     \* the starter template of `eudoxia init` always takes one ready operator
                       ELSE (IF GetOps(st, p, TRUE) = <<>> THEN <<>> ELSE <<GetOps(st, p, TRUE)[1]>>) IN
            IF ops = <<>> THEN NaivePop(st, Tail(q), Append(rq, p), k)
            ELSE LET a == [ops |-> ops, cpu |-> st.pools[k].acpu, ram |-> st.pools[k].aram, pool |-> k, prio |-> wl[p].prio] IN
                 [st |-> MkAssignment(wl, st, a), q |-> Tail(q), rq |-> Append(rq, p), asg |-> <<a>>]
RECURSIVE NaivePools(_, _, _, _, _)
NaivePools(st, q, rq, k, acc) ==
  IF k > Cfg.np THEN [st |-> st, q |-> q \o rq, asg |-> acc]
  ELSE IF st.pools[k].acpu <= 0 \/ st.pools[k].aram <= 0 THEN NaivePools(st, q, rq, k + 1, acc)
  ELSE LET r == NaivePop(st, q, rq, k) IN NaivePools(r.st, r.q, r.rq, k + 1, acc \o r.asg)
NaiveRound(st, pv, new, results) ==
  IF new = <<>> /\ results = <<>> THEN [st |-> st, priv |-> pv, sus |-> <<>>, asg |-> <<>>]
  ELSE LET r == NaivePools(st, pv.queue \o new, <<>>, 1, <<>>) IN
       [st |-> r.st, priv |-> [queue |-> r.q], sus |-> <<>>, asg |-> r.asg]

(* ------------------------------------ overbook ------------------------------------ *)
OverbookInit == [opq |-> <<>>, nfail |-> [p \in 1..NP |-> 0]]
RECURSIVE Dedup(_, _)
Dedup(q, seen) == IF q = <<>> THEN <<>> ELSE IF Head(q) \in seen THEN Dedup(Tail(q), seen) ELSE <<Head(q)>> \o Dedup(Tail(q), seen \cup {Head(q)})
RECURSIVE ConcatAll(_)
ConcatAll(qq) == IF qq = <<>> THEN <<>> ELSE Head(qq) \o ConcatAll(Tail(qq))
FirstPoolWithCpu(av) == IF \E k \in 1..Cfg.np : av[k] >= 1 THEN CHOOSE k \in 1..Cfg.np : av[k] >= 1 /\ \A j \in 1..(k-1) : av[j] < 1 ELSE 0
RECURSIVE ObAssign(_, _, _, _, _)
ObAssign(st, q, nfail, av, acc) ==     \* make_assignments: [st, opq, asg]
  IF q = <<>> THEN [st |-> st, opq |-> <<>>, asg |-> acc]
  ELSE LET o == Head(q) IN
       IF nfail[o[1]] >= 3 THEN ObAssign(st, Tail(q), nfail, av, acc)
       ELSE IF Ost(st, o) \notin {"pending", "failed"} THEN [st |-> CrashWith(st, "overbook_assert"), opq |-> q, asg |-> acc]
       ELSE LET k == FirstPoolWithCpu(av) IN
            IF k = 0 THEN [st |-> st, opq |-> q, asg |-> acc]
            ELSE LET a == [ops |-> <<o>>, cpu |-> 1, ram |-> Cfg.ramcap, pool |-> k, prio |-> wl[o[1]].prio] IN
                 ObAssign(MkAssignment(wl, st, a), Tail(q), nfail, [av EXCEPT ![k] = @ - 1], Append(acc, a))
OverbookRound(st, pv, new, results) ==
  IF new = <<>> /\ results = <<>> THEN [st |-> st, priv |-> pv, sus |-> <<>>, asg |-> <<>>]
  ELSE LET resPipes == [j \in 1..Len(results) |-> st.ctr[results[j].cid].ops[1][1]]
           toProcess == Dedup(new \o resPipes, {})
           nf == [p \in 1..NP |-> pv.nfail[p] + Cardinality({j \in 1..Len(results) : results[j].err # "" /\ resPipes[j] = p})]
           ready == ConcatAll([j \in 1..Len(toProcess) |-> GetOps(st, toProcess[j], TRUE)])
           q == Dedup(pv.opq \o ready, {})
           av == [k \in 1..Cfg.np |-> st.pools[k].acpu]
           r == ObAssign(st, q, nf, av, <<>>)
       IN [st |-> r.st, priv |-> [opq |-> r.opq, nfail |-> nf], sus |-> <<>>, asg |-> r.asg]


(* ------------------------------------ priority-pool ------------------------------------ *)
\* job = [p, ops, has (retry stats present), cpu, ram, err]
NoRs(p, ops) == [p |-> p, ops |-> ops, has |-> FALSE, cpu |-> 0, ram |-> 0, err |-> ""]
QName(prio) == IF prio = "Q" THEN "qry" ELSE IF prio = "I" THEN "inter" ELSE "batch"
Enq(pv, job) == [pv EXCEPT ![QName(wl[job.p].prio)] = Append(@, job)]
RECURSIVE EnqAll(_, _)
EnqAll(pv, jobs) == IF jobs = <<>> THEN pv ELSE EnqAll(Enq(pv, Head(jobs)), Tail(jobs))
DefaultCpu == Max(1, Cfg.cpucap \div 10)
DefaultRam == Max(Cfg.U, (Cfg.ramcap \div (10 * Cfg.U)) * Cfg.U)
Unfinished(st, ops) == SelectSeq(ops, LAMBDA o : Ost(st, o) # "completed")
PPInit == [qry |-> <<>>, inter |-> <<>>, batch |-> <<>>]
\* one queue against one pool: acc = [st, av (<<cpu, ram>>), asg, keep (jobs left in the queue), stop]
RECURSIVE PPQueue(_, _, _)
PPQueue(acc, q, k) ==
  IF q = <<>> THEN acc
  ELSE IF acc.stop \/ acc.st.crash # "" THEN [acc EXCEPT !.keep = @ \o q]
  ELSE LET job == Head(q) acpu == acc.av[1] aram == acc.av[2] IN
       IF aram = 0 \/ acpu = 0
       THEN IF aram = 0 /\ acpu = 0 THEN PPQueue([acc EXCEPT !.stop = TRUE], q, k)
            ELSE [acc EXCEPT !.st = CrashWith(@, "pp_assert_depleted"), !.keep = @ \o q]
       ELSE IF job.has /\ job.err # ""
            THEN IF 4 * job.cpu >= Cfg.cpucap \/ 4 * job.ram >= Cfg.ramcap
                 THEN PPQueue(acc, Tail(q), k)                                   \* cut off: dropped, never retried
                 ELSE LET c0 == 2 * job.cpu r0 == 2 * job.ram
                          full == c0 >= acpu \/ r0 >= aram
                          a == [ops |-> job.ops, cpu |-> IF full THEN acpu ELSE c0, ram |-> IF full THEN aram ELSE r0, pool |-> k, prio |-> wl[job.p].prio]
                      IN PPQueue([acc EXCEPT !.st = MkAssignment(wl, @, a), !.av = <<acpu - a.cpu, aram - a.ram>>, !.asg = Append(@, a)], Tail(q), k)
            ELSE LET full == DefaultCpu >= acpu \/ DefaultRam >= aram
                     a == [ops |-> job.ops, cpu |-> IF full THEN acpu ELSE DefaultCpu, ram |-> IF full THEN aram ELSE DefaultRam, pool |-> k, prio |-> wl[job.p].prio]
                 IN PPQueue([acc EXCEPT !.st = MkAssignment(wl, @, a), !.av = <<acpu - a.cpu, aram - a.ram>>, !.asg = Append(@, a)], Tail(q), k)
PPRound(st, pv, new, results) ==
  LET newJobs == [j \in 1..Len(new) |-> NoRs(new[j], [m \in 1..Len(IterOrder(new[j])) |-> <<new[j], IterOrder(new[j])[m]>>])]
      fails == SelectSeq(results, LAMBDA r : r.err # "")
      failJobs == [j \in 1..Len(fails) |-> [p |-> fails[j].ops[1][1], ops |-> Unfinished(st, fails[j].ops), has |-> TRUE, cpu |-> fails[j].cpu, ram |-> fails[j].ram, err |-> fails[j].err]]
      pv1 == EnqAll(EnqAll(pv, newJobs), failJobs)
      a0 == [st |-> st, av |-> <<st.pools[1].acpu, st.pools[1].aram>>, asg |-> <<>>, keep |-> <<>>, stop |-> FALSE]
      r1 == PPQueue(a0, pv1.qry, 1)
      r2 == PPQueue([r1 EXCEPT !.keep = <<>>, !.stop = FALSE], pv1.inter, 1)
      r3 == PPQueue([st |-> r2.st, av |-> <<st.pools[2].acpu, st.pools[2].aram>>, asg |-> r2.asg, keep |-> <<>>, stop |-> FALSE], pv1.batch, 2)
  IN [st |-> r3.st, priv |-> [qry |-> r1.keep, inter |-> r2.keep, batch |-> r3.keep], sus |-> <<>>, asg |-> r3.asg]

(* ------------------------------------ priority ------------------------------------ *)
PrInit == [qry |-> <<>>, inter |-> <<>>, batch |-> <<>>, susp |-> <<>>]     \* susp: sequence of [cid, job]
QueuedOps(pv) == UNION {UNION {Range(pv[n][j].ops) : j \in 1..Len(pv[n])} : n \in {"qry", "inter", "batch"}}
\* the pool with the largest positive free RAM among those with a free cpu (first one wins)
BestPool(av) == LET ok == {k \in 1..Cfg.np : av[k][1] > 0 /\ av[k][2] > 0} IN
                IF ok = {} THEN 0 ELSE CHOOSE k \in ok : \A j \in ok : av[j][2] < av[k][2] \/ (av[j][2] = av[k][2] /\ k <= j)
RECURSIVE PrQueue(_, _)
PrQueue(acc, q) ==          \* acc = [st, av (per pool <<cpu, ram>>), asg, keep, stop]
  IF q = <<>> THEN acc
  ELSE IF acc.stop \/ acc.st.crash # "" THEN [acc EXCEPT !.keep = @ \o q]
  ELSE LET job == Head(q) k == BestPool(acc.av) IN
       IF k = 0 THEN PrQueue([acc EXCEPT !.stop = TRUE], q)
       ELSE LET acpu == acc.av[k][1] aram == acc.av[k][2]
                give(c, r) == LET a == [ops |-> job.ops, cpu |-> c, ram |-> r, pool |-> k, prio |-> wl[job.p].prio] IN
                              PrQueue([acc EXCEPT !.st = MkAssignment(wl, @, a), !.av[k] = <<acpu - c, aram - r>>, !.asg = Append(@, a)], Tail(q))
            IN IF job.has /\ job.err # ""
               THEN IF 2 * job.cpu > acpu \/ 2 * job.ram > aram THEN PrQueue(acc, Tail(q))           \* does not fit now: the retry is dropped
                    ELSE IF 4 * job.cpu >= Cfg.cpucap \/ 4 * job.ram >= Cfg.ramcap THEN PrQueue(acc, Tail(q))
                    ELSE give(2 * job.cpu, 2 * job.ram)
               ELSE IF job.has /\ job.cpu < acpu /\ job.ram < aram THEN give(job.cpu, job.ram)       \* resumed after a preemption
               ELSE IF DefaultCpu >= acpu \/ DefaultRam >= aram THEN give(acpu, aram) ELSE give(DefaultCpu, DefaultRam)
\* preemption: one candidate per pool visit, round-robin, skipping QUERY containers; at most `need` victims
RECURSIVE PickVictims(_, _, _, _, _, _)
PickVictims(st, pos, exhausted, k, need, acc) ==      \* pos[k] = next index in pool k's active list
  IF Len(acc) >= need \/ (\A j \in 1..Cfg.np : exhausted[j]) THEN acc
  ELSE LET act == st.pools[k].active
           \* skip QUERY containers
           nxt == IF \E i \in pos[k]..Len(act) : wl[st.ctr[act[i]].ops[1][1]].prio # "Q"
                  THEN CHOOSE i \in pos[k]..Len(act) : wl[st.ctr[act[i]].ops[1][1]].prio # "Q" /\ \A h \in pos[k]..(i - 1) : wl[st.ctr[act[h]].ops[1][1]].prio = "Q"
                  ELSE 0
           k2 == (k % Cfg.np) + 1
       IN IF nxt = 0 THEN PickVictims(st, pos, [exhausted EXCEPT ![k] = TRUE], k2, need, acc)
          ELSE PickVictims(st, [pos EXCEPT ![k] = nxt + 1], exhausted, k2, need,
                           IF st.ctr[act[nxt]].can THEN Append(acc, [cid |-> act[nxt], pool |-> k]) ELSE acc)
SuspJob(st, cid) == LET c == st.ctr[cid] IN [p |-> c.ops[1][1], ops |-> Unfinished(st, c.ops), has |-> TRUE, cpu |-> c.cpu, ram |-> c.ram, err |-> c.err]
RECURSIVE PutSusp(_, _, _)
PutSusp(sq, cid, job) == IF sq = <<>> THEN << [cid |-> cid, job |-> job] >>
                         ELSE IF Head(sq).cid = cid THEN << [cid |-> cid, job |-> job] >> \o Tail(sq) ELSE <<Head(sq)>> \o PutSusp(Tail(sq), cid, job)
RECURSIVE PutAllSusp(_, _, _)
PutAllSusp(sq, st, cids) == IF cids = <<>> THEN sq ELSE PutAllSusp(PutSusp(sq, Head(cids), SuspJob(st, Head(cids))), st, Tail(cids))
PrRound(st, pv, new, results) ==
  LET resPipes == ConcatAll([j \in 1..Len(results) |-> [m \in 1..Len(results[j].ops) |-> results[j].ops[m][1]]])
      toProcess == Dedup(new \o resPipes, {})
      info(o) == LET js == {j \in 1..Len(results) : results[j].err # "" /\ o \in Range(results[j].ops) /\ Ost(st, o) # "completed"} IN
                 IF js = {} THEN [has |-> FALSE, cpu |-> 0, ram |-> 0, err |-> ""]
                 ELSE LET j == CHOOSE x \in js : \A y \in js : y <= x IN [has |-> TRUE, cpu |-> results[j].cpu, ram |-> results[j].ram, err |-> results[j].err]
      queued == QueuedOps(pv)
      jobsOf(p) == LET ol == SelectSeq(GetOps(st, p, ~Cfg.multi), LAMBDA o : o \notin queued) IN
                   IF ol = <<>> THEN <<>>
                   ELSE IF Cfg.multi THEN << [p |-> p, ops |-> ol] @@ info(ol[1]) >>
                   ELSE [m \in 1..Len(ol) |-> [p |-> p, ops |-> <<ol[m]>>] @@ info(ol[m])]
      pv1 == EnqAll(pv, ConcatAll([j \in 1..Len(toProcess) |-> jobsOf(toProcess[j])]))
      \* containers seen while suspending are remembered; those found suspended are re-queued once
      suspendingNow == ConcatAll([k \in 1..Cfg.np |-> st.pools[k].suspending])
      sq1 == PutAllSusp(pv1.susp, st, suspendingNow)
      suspendedNow == ConcatAll([k \in 1..Cfg.np |-> st.pools[k].suspended])
      back == SelectSeq(sq1, LAMBDA x : x.cid \in Range(suspendedNow))
      backOrdered == SelectSeq([j \in 1..Len(suspendedNow) |-> suspendedNow[j]], LAMBDA c : \E x \in Range(back) : x.cid = c)
      backJobs == [j \in 1..Len(backOrdered) |-> (CHOOSE x \in Range(back) : x.cid = backOrdered[j]).job]
      pv2 == [EnqAll(pv1, backJobs) EXCEPT !.susp = SelectSeq(sq1, LAMBDA x : x.cid \notin Range(suspendedNow))]
      a0 == [st |-> st, av |-> [k \in 1..Cfg.np |-> <<st.pools[k].acpu, st.pools[k].aram>>], asg |-> <<>>, keep |-> <<>>, stop |-> FALSE]
      r1 == PrQueue(a0, pv2.qry)
      r2 == PrQueue([r1 EXCEPT !.keep = <<>>, !.stop = FALSE], pv2.inter)
      r3 == PrQueue([r2 EXCEPT !.keep = <<>>, !.stop = FALSE], pv2.batch)
      victims == IF r1.keep = <<>> THEN <<>>
                 ELSE PickVictims(r3.st, [k \in 1..Cfg.np |-> 1], [k \in 1..Cfg.np |-> FALSE], 1, Len(r1.keep), <<>>)
      sq3 == IF Cfg.requeueShortSuspension THEN PutAllSusp(pv2.susp, r3.st, [j \in 1..Len(victims) |-> victims[j].cid]) ELSE pv2.susp
  IN [st |-> r3.st, priv |-> [qry |-> r1.keep, inter |-> r2.keep, batch |-> r3.keep, susp |-> sq3], sus |-> victims, asg |-> r3.asg]

(* ------------------------------------ dispatch ------------------------------------ *)
PolicyInit == CASE Policy \in {"naive", "starter"} -> NaiveInit [] Policy = "overbook" -> OverbookInit [] Policy = "priority-pool" -> PPInit [] Policy = "priority" -> PrInit
PolicyRound(st, pv, new, results) ==
  CASE Policy \in {"naive", "starter"} -> NaiveRound(st, pv, new, results) [] Policy = "overbook" -> OverbookRound(st, pv, new, results)
    [] Policy = "priority-pool" -> PPRound(st, pv, new, results) [] Policy = "priority" -> PrRound(st, pv, new, results)
=============================================================================
