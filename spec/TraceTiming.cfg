SPECIFICATION Spec
POSTCONDITION Consumed
