------------------------------- MODULE MC_Sched -------------------------------
EXTENDS Sched
Sg(io, cpu, fixed, read, grow) == [io |-> io, cpu |-> [c \in 1..8 |-> cpu], fixed |-> fixed, read |-> read, grow |-> grow]
Op(par, segs) == [par |-> par, segs |-> segs]
Short == <<Sg(0,1,1,0,0)>>   Long == <<Sg(0,2,1,0,0)>>   Big == <<Sg(0,1,9,0,0)>>   Grow == <<Sg(2,0,-1,2,1)>>   Zero == <<Sg(0,0,1,0,0)>>
Med == <<Sg(0,2,2,0,0)>>
ShapesA == { << Op(<<>>, Short) >>,                                            \* single
             << Op(<<>>, Short), Op(<<1>>, Long) >>,                            \* chain
             << Op(<<>>, Short), Op(<<>>, Grow), Op(<<1,2>>, Short) >>,         \* join, two roots
             << Op(<<>>, Long),  Op(<<1>>, Big),  Op(<<1>>, Short) >>,          \* fork with an op that always OOMs
             << Op(<<>>, Zero),  Op(<<1>>, Med) >> }                            \* zero-tick first op, then one that OOMs in a small container
ShapesOne == { << Op(<<>>, Short), Op(<<>>, Grow), Op(<<1,2>>, Short) >> }
CfgNaive2  == [np |-> 2, cpucap |-> 2, ramcap |-> 3, oc |-> FALSE, multi |-> TRUE, suspNum |-> 1, suspDen |-> 2, U |-> 1,
               minOneTick |-> TRUE, minSuspTick |-> TRUE, checkPool |-> TRUE, reconcileOnSuspend |-> TRUE, requeueShortSuspension |-> TRUE]
CfgPP      == [CfgNaive2 EXCEPT !.cpucap = 8, !.ramcap = 8]
CfgPr      == [CfgNaive2 EXCEPT !.np = 1, !.cpucap = 2, !.ramcap = 4, !.suspDen = 1]       \* suspension of ram ticks
CfgPr2     == [CfgNaive2 EXCEPT !.np = 2, !.cpucap = 1, !.ramcap = 2]
CfgPr1     == [CfgNaive2 EXCEPT !.np = 1, !.cpucap = 1, !.ramcap = 2]
CfgPr1D7   == [CfgPr1 EXCEPT !.requeueShortSuspension = FALSE]
CfgPrS     == [CfgPr EXCEPT !.multi = FALSE]
CfgPrD7    == [CfgPr2 EXCEPT !.requeueShortSuspension = FALSE]
CfgNaive2S == [CfgNaive2 EXCEPT !.multi = FALSE]
CfgNaive1  == [CfgNaive2 EXCEPT !.np = 1, !.cpucap = 1]
CfgOver    == [CfgNaive2 EXCEPT !.oc = TRUE, !.multi = FALSE, !.ramcap = 3]
CfgOver1   == [CfgNaive2 EXCEPT !.oc = TRUE, !.np = 1, !.cpucap = 3, !.ramcap = 2]
\* kills from outside (Sched.tla, KillFromOutside)
WithKill(c) == [f \in DOMAIN c \cup {"extKill"} |-> IF f = "extKill" THEN TRUE ELSE c[f]]
CfgNaive2K  == WithKill(CfgNaive2)
CfgNaive2SK == WithKill(CfgNaive2S)
CfgOver1K   == WithKill(CfgOver1)
CfgPr1K     == WithKill(CfgPr1)
CfgPPK      == WithKill(CfgPP)
\* every initial state (workload x arrival ticks) of a configuration, printed for the harness, which runs the REAL policy and executor on each of them
\* (CONSTRAINT: the states are generated and printed, their successors are not)
DumpInit == PrintT(<<"INIT", Policy, Cfg, MaxTick, wl, arr>>) /\ FALSE
=============================================================================
