------------------------------- MODULE MC_Exec -------------------------------
(* Bounded configurations of Eudoxia.tla (universal scheduler).  One .cfg per (workload, mode). *)
EXTENDS Eudoxia

\* seg(io ticks, cpu ticks, fixed mem or -1, read, grow)  -- cpu ticks independent of the cpu count here
Sg(io, cpu, fixed, read, grow) == [io |-> io, cpu |-> <<cpu, cpu>>, fixed |-> fixed, read |-> read, grow |-> grow]
\* cpu ticks that depend on the allocation: 2 ticks on one cpu, 1 on two (a scaling law)
SgScaled(fixed) == [io |-> 0, cpu |-> <<2, 1>>, fixed |-> fixed, read |-> 0, grow |-> 0]
Op(par, segs) == [par |-> par, segs |-> segs]
Short == <<Sg(0,1,1,0,0)>>      \* 1 tick, 1 unit
Long  == <<Sg(0,2,1,0,0)>>      \* 2 ticks
Big   == <<Sg(0,2,3,0,0)>>      \* 2 ticks, 3 units: OOMs in a small container, fills the pool
Grow  == <<Sg(2,0,-1,2,1)>>     \* 2 I/O ticks growing 1,2
GrowC == <<Sg(2,1,-1,2,1)>>     \* 2 I/O ticks growing 1,2 then a cpu tick at 2
Zero  == <<Sg(0,0,1,0,0)>>      \* rounds to zero ticks: still occupies one
TwoSeg == <<Sg(0,1,1,0,0), Sg(0,0,2,0,0)>>   \* last segment empty: completes at the end of the first
Scaled == <<SgScaled(1)>>

P(prio, ops) == [prio |-> prio, arr |-> 0, ops |-> ops]
WL_chain   == << P("B", << Op(<<>>, Short), Op(<<1>>, Grow), Op(<<2>>, Short) >>) >>
WL_fork    == << P("B", << Op(<<>>, Short), Op(<<1>>, Grow), Op(<<1>>, Big) >>), P("Q", << Op(<<>>, Long) >>) >>
WL_join    == << P("I", << Op(<<>>, Short), Op(<<>>, Zero), Op(<<1,2>>, GrowC) >>) >>
WL_diamond == << P("B", << Op(<<>>, Short), Op(<<1>>, Scaled), Op(<<1>>, TwoSeg), Op(<<2,3>>, Short) >>) >>
WL_two     == << P("B", << Op(<<>>, Short), Op(<<1>>, Long) >>), P("Q", << Op(<<>>, Grow), Op(<<1>>, Zero) >>) >>
WL_press   == << P("B", << Op(<<>>, GrowC), Op(<<>>, Big), Op(<<>>, Grow) >>), P("I", << Op(<<>>, Long), Op(<<1>>, Short) >>) >>

Base == [np |-> 2, cpucap |-> 2, ramcap |-> 3, oc |-> FALSE, multi |-> TRUE,
         suspNum |-> 1, suspDen |-> 2,      \* SuspTicks(ram) = max(1, ram \div 2): 1 -> 1 (forced), 2,3 -> 1, 4 -> 2
         minOneTick |-> TRUE, minSuspTick |-> TRUE, checkPool |-> TRUE, reconcileOnSuspend |-> TRUE]
Cfg_multi    == Base
Cfg_oc       == [Base EXCEPT !.oc = TRUE]
Cfg_single   == [Base EXCEPT !.multi = FALSE]
Cfg_oc1      == [Base EXCEPT !.oc = TRUE, !.np = 1, !.cpucap = 3, !.suspDen = 1]     \* one pool, 3 cpus, longer suspensions
Cfg_long     == [Base EXCEPT !.suspDen = 1]                                           \* SuspTicks = ram
\* optional behaviours (Eudoxia.tla, Opt): a caller that goes on after a refusal (one pool), kills from outside
Base1        == [Base EXCEPT !.np = 1, !.cpucap = 3, !.suspDen = 1]
Cfg_goon     == [f \in DOMAIN Base1 \cup {"goOn"} |-> IF f = "goOn" THEN TRUE ELSE Base1[f]]
Cfg_goon_oc  == [Cfg_goon EXCEPT !.oc = TRUE]
Cfg_goon_s   == [Cfg_goon EXCEPT !.multi = FALSE]
Cfg_extkill  == [f \in DOMAIN Cfg_long \cup {"extKill"} |-> IF f = "extKill" THEN TRUE ELSE Cfg_long[f]]
Cfg_extkill1 == [f \in DOMAIN Cfg_oc1 \cup {"extKill", "goOn"} |-> IF f \in {"extKill", "goOn"} THEN TRUE ELSE Cfg_oc1[f]]
\* the pinned tree's defects, one switch each: TLC must find the violation
Cfg_D1 == [Base EXCEPT !.minOneTick = FALSE]
Cfg_D2 == [Base EXCEPT !.minSuspTick = FALSE, !.suspDen = 4]
Cfg_D3 == [Base EXCEPT !.oc = TRUE, !.reconcileOnSuspend = FALSE]
Cfg_D4 == [Base EXCEPT !.checkPool = FALSE]
=============================================================================
