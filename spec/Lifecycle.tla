------------------------------ MODULE Lifecycle ------------------------------
(* The operator state machine of ONE pipeline (PipelineRuntimeStatus), exposed to ARBITRARY
   state-change requests: in every reachable state each of the 6*N (operator, target)
   requests is made.  A request is accepted iff the documented table allows it and, for
   RUNNING, all parents are completed; otherwise it is refused and nothing changes (C02).

   The DAG is chosen in Init: N in 1..MaxN operators, operator i's parents are any subset of
   the earlier operators - every DAG in every insertion order.
   TLC explores the COMPLETE reachable graph and prints every edge
        <<"EDGE", n, par, ost, op, target, accepted, ost'>>
   which the harness replays one by one on a real PipelineRuntimeStatus.                      *)
EXTENDS Integers, Sequences, FiniteSets, TLC

CONSTANTS MaxN, PrintEdges
Table == [pending    |-> {"assigned"},
          assigned   |-> {"running", "suspending", "failed"},
          running    |-> {"completed", "failed"},
          suspending |-> {"pending"},
          completed  |-> {},
          failed     |-> {"assigned"}]
States == {"pending", "assigned", "running", "suspending", "completed", "failed"}

VARIABLES n, par, ost, cnt
vars == <<n, par, ost, cnt>>

RECURSIVE Dags(_)
Dags(m) == IF m = 0 THEN {<<>>} ELSE {Append(d, S) : d \in Dags(m - 1), S \in SUBSET (1..(m - 1))}
Init == /\ n \in 1..MaxN
        /\ par \in Dags(n)
        /\ ost = [i \in 1..n |-> "pending"]
        /\ cnt = [st \in States |-> IF st = "pending" THEN n ELSE 0]

Accepts(i, t) == t \in Table[ost[i]] /\ (t = "running" => \A q \in par[i] : ost[q] = "completed")
Request(i, t) ==
  /\ IF Accepts(i, t)
     THEN /\ ost' = [ost EXCEPT ![i] = t]
          /\ cnt' = [cnt EXCEPT ![ost[i]] = @ - 1, ![t] = @ + 1]
     ELSE UNCHANGED <<ost, cnt>>
  /\ (PrintEdges => PrintT(<<"EDGE", n, par, ost, i, t, Accepts(i, t), ost'>>))
  /\ UNCHANGED <<n, par>>
Next == \E i \in 1..n, t \in States : Request(i, t)
Spec == Init /\ [][Next]_vars

C02_CountsAreHistogram == \A st \in States : cnt[st] = Cardinality({i \in 1..n : ost[i] = st})
C02_CompletedFinal == [][\A i \in 1..n : ost[i] = "completed" => ost'[i] = "completed"]_vars
C02_OnlyTableMoves == [][\A i \in 1..n : ost'[i] # ost[i] => ost'[i] \in Table[ost[i]]]_vars
C02_OneAtATime == [][Cardinality({i \in 1..n : ost'[i] # ost[i]}) <= 1]_vars
C01_RunningNeedsParents == \A i \in 1..n : ost[i] \in {"running", "completed"} => \A q \in par[i] : ost[q] = "completed"
=============================================================================
