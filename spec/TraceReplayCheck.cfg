SPECIFICATION TSpec
POSTCONDITION Consumed
