SPECIFICATION MSpec
CONSTANTS
  MaxTick = 4
  Arrivals = {0, 1, 2, 3, 4, 5}
INVARIANT C13_Once
INVARIANT C13_NotEarly
INVARIANT C13_FirstTick
INVARIANT C13_FileOrder
INVARIANT C13_AllDue
INVARIANT C13_AfterEndNotDelivered
