SPECIFICATION Spec
POSTCONDITION Consumed
