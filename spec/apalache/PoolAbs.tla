------------------------------- MODULE PoolAbs -------------------------------
(* An integer abstraction of ONE resource pool (E1/E2/E3/E6 bookkeeping of EudoxiaOps): capacity, free amount, and the
   allocation of each live container (running or suspending).  Used with Apalache to discharge conservation as an
   INDUCTIVE invariant, i.e. for any capacity, any allocation sizes and runs of any length (not only the small constants
   TLC enumerates):    free + sum of allocations = capacity,   free >= 0 unless overcommit.                              *)
EXTENDS Integers, FiniteSets, Apalache

CONSTANTS
  \* @type: Set(Int);
  Ctr,        \* container identities (a finite set; identities are reused)
  \* @type: Int;
  Cap,
  \* @type: Bool;
  Overcommit

VARIABLES
  \* @type: Int;
  free,
  \* @type: Int -> Int;
  alloc,      \* 0 = not live
  \* @type: Int -> Str;
  where       \* "none" | "active" | "suspending"

\* @type: (Int -> Int, Set(Int)) => Int;
Total(f, S) == ApaFoldSet(LAMBDA acc, c: acc + f[c], 0, S)

TypeOK == /\ alloc \in [Ctr -> Nat] /\ where \in [Ctr -> {"none", "active", "suspending"}]
          /\ \A c \in Ctr : (alloc[c] = 0) <=> (where[c] = "none")

Init == /\ free = Cap /\ alloc = [c \in Ctr |-> 0] /\ where = [c \in Ctr |-> "none"]

\* E2: a batch of new containers, verified as a whole (here: one container per step; the sum check is the batch check for a batch of one)
Start(c, r) == /\ where[c] = "none" /\ r > 0
               /\ (~Overcommit => r <= free)
               /\ alloc' = [alloc EXCEPT ![c] = r] /\ where' = [where EXCEPT ![c] = "active"] /\ free' = free - r
\* E1: suspension keeps the allocation
Suspend(c) == /\ where[c] = "active" /\ where' = [where EXCEPT ![c] = "suspending"] /\ UNCHANGED <<free, alloc>>
\* E3 / E6: the allocation is returned exactly once, when the container ends or finishes suspending
Release(c) == /\ where[c] \in {"active", "suspending"}
              /\ free' = free + alloc[c] /\ alloc' = [alloc EXCEPT ![c] = 0] /\ where' = [where EXCEPT ![c] = "none"]
Next == \E c \in Ctr : Suspend(c) \/ Release(c) \/ \E r \in 1..(IF Overcommit THEN Cap + Cap ELSE free) : Start(c, r)

Conservation == free + Total(alloc, Ctr) = Cap
NonNegative == ~Overcommit => free >= 0
IndInv == TypeOK /\ Conservation /\ NonNegative /\ Cap >= 0
=============================================================================
