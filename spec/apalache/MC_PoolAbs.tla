----------------------------- MODULE MC_PoolAbs -----------------------------
EXTENDS Integers
CONSTANTS
  \* @type: Int;
  Cap,
  \* @type: Bool;
  Overcommit
VARIABLES
  \* @type: Int;
  free,
  \* @type: Int -> Int;
  alloc,
  \* @type: Int -> Str;
  where
Ctr == 1..4
INSTANCE PoolAbs
\* any capacity and either mode
ConstInit == Cap \in Nat /\ Overcommit \in BOOLEAN
\* "any state satisfying the invariant" as an initial predicate for the inductive step
IndInit == /\ free \in Int /\ alloc \in [Ctr -> Nat] /\ where \in [Ctr -> {"none", "active", "suspending"}] /\ IndInv
=============================================================================
