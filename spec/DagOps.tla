------------------------------- MODULE DagOps -------------------------------
(* Constant operators about DAGs shared by DagIter.tla (model) and TraceDag.tla (monitor). *)
EXTENDS Integers, Sequences, FiniteSets, TLC

RECURSIVE Dags(_)
Dags(m) == IF m = 0 THEN {<<>>} ELSE {Append(d, S) : d \in Dags(m - 1), S \in SUBSET (1..(m - 1))}
Children(p, m, x) == {c \in 1..m : x \in p[c]}
RECURSIVE SetToSeq(_)
SetToSeq(S) == IF S = {} THEN <<>> ELSE LET m == CHOOSE x \in S : \A y \in S : x <= y IN <<m>> \o SetToSeq(S \ {m})
Roots(p, m) == SetToSeq({i \in 1..m : p[i] = {}})

\* q is a permutation of 1..m with every parent before its child
TopoPerm(p, m, q) ==
  /\ Len(q) = m /\ {q[i] : i \in 1..Len(q)} = 1..m
  /\ \A i, j \in 1..Len(q) : q[i] \in p[q[j]] => i < j

\* the transcribed iterator as a function (the model's own order; compared as DRIFT only)
RECURSIVE RunIter(_, _, _, _, _)
RunIter(p, m, q, ret, acc) ==
  IF q = <<>> THEN acc
  ELSE LET curr == Head(q) r2 == ret \cup {curr}
           ready == {c \in Children(p, m, curr) : c \notin r2 /\ p[c] \subseteq r2}
       IN RunIter(p, m, Tail(q) \o SetToSeq(ready), r2, Append(acc, curr))
ModelOrder(p, m) == RunIter(p, m, Roots(p, m), {}, <<>>)
=============================================================================
