------------------------------- MODULE DagIter -------------------------------
(* The topological iterator of a pipeline's operator DAG (eudoxia/utils/dag.py), transcribed
   step by step, over EVERY DAG on up to MaxN nodes (node i's parents are any subset of the
   earlier nodes: every DAG, every insertion order up to isomorphism; 33 867 DAGs for MaxN = 6).

   C01 (iteration half): the iterator terminates having emitted every node exactly once,
   every parent before its children.

   The same module is the trace monitor for the real iterator (DagTraceSpec): each line of the
   log carries one DAG and the orders produced by `list(pipeline.values)` and by
   `runtime_status().get_ops(...)`; TopoPerm is evaluated on them; the model's own order is
   only compared as DRIFT (the property does not fix the order among independent nodes).      *)
EXTENDS DagOps

CONSTANTS MaxN
VARIABLES n, par, queue, out, returned
vars == <<n, par, queue, out, returned>>

Init == /\ n \in 1..MaxN /\ par \in Dags(n)
        /\ queue = Roots(par, n) /\ out = <<>> /\ returned = {}

\* __next__: pop the head, mark it returned, append every child that just became ready (children in insertion order)
StepIter ==
  /\ queue # <<>>
  /\ LET curr == Head(queue)
         ret  == returned \cup {curr}
         ready == {c \in Children(par, n, curr) : c \notin ret /\ par[c] \subseteq ret}
     IN /\ queue' = Tail(queue) \o SetToSeq(ready)
        /\ returned' = ret
        /\ out' = Append(out, curr)
  /\ UNCHANGED <<n, par>>
Spec == Init /\ [][StepIter]_vars

C01_TopoPerm == queue = <<>> => TopoPerm(par, n, out)
C01_NoDuplicates == \A i, j \in 1..Len(out) : i # j => out[i] # out[j]
C01_QueueDisjoint == \A i \in 1..Len(queue) : queue[i] \notin returned
C01_Terminates == Len(out) + Len(queue) <= n          \* with StepIter disabled only when queue is empty

\* the functional form used by the trace monitor agrees with the step-by-step iterator
C01_FunctionalFormAgrees == queue = <<>> => out = ModelOrder(par, n)
=============================================================================
