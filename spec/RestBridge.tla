------------------------------ MODULE RestBridge ------------------------------
(* C19, model side: the REST bridge as a protocol state machine.
     known     pipelines the external scheduler has been told about and that were not yet reported complete
     reported  pipelines already reported complete
     last      tick (1-based counter of the bridge) of the last call, 0 initially
   Per tick: something arrived or finished => Call; otherwise Call only if the poll interval has elapsed.        *)
EXTENDS Integers, FiniteSets, TLC
CONSTANTS Pipes, MaxTick, Poll        \* Poll in ticks
VARIABLES tick, known, reported, last, complete, arrived, lastcall
vars == <<tick, known, reported, last, complete, arrived, lastcall>>
Init == tick = 0 /\ known = {} /\ reported = {} /\ last = 0 /\ complete = {} /\ arrived = {} /\ lastcall = [new |-> {}, other |-> {}, idle |-> FALSE, made |-> FALSE]
\* environment: some pipelines arrive, some known ones complete (a completion always comes with a result)
Tick == /\ tick < MaxTick
        /\ \E new \in SUBSET (Pipes \ arrived), fin \in SUBSET ((known \cup {}) \ complete) :
             LET event == new # {} \/ fin # {}
                 now == tick + 1
                 call == event \/ now - last >= Poll
             IN /\ arrived' = arrived \cup new /\ complete' = complete \cup fin
                /\ IF call
                   THEN /\ lastcall' = [new |-> new, other |-> known, idle |-> ~event, made |-> TRUE, gap |-> now - last,
                                         completeflag |-> {p \in known : p \in complete \cup fin}]
                        /\ last' = now
                        /\ known' = (known \cup new) \ (complete \cup fin)
                        /\ reported' = reported \cup ((known \cup new) \cap (complete \cup fin))
                   ELSE /\ lastcall' = [lastcall EXCEPT !.made = FALSE] /\ UNCHANGED <<last, known, reported>>
        /\ tick' = tick + 1
Spec == Init /\ [][Tick]_vars
C19_Disjoint == lastcall.made => lastcall.new \cap lastcall.other = {}
C19_IdleSpacing == (lastcall.made /\ lastcall.idle) => lastcall.gap >= Poll
C19_CompleteExactlyOnce == [][\A p \in Pipes : (p \in reported) => (p \notin known' /\ p \in reported')]_vars
C19_NeverAgain == lastcall.made => (lastcall.other \cup lastcall.new) \cap (reported \ lastcall.completeflag) = {}
C19_KnownAreLive == known \cap reported = {} /\ known \subseteq arrived
=============================================================================
