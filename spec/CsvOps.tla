-------------------------------- MODULE CsvOps --------------------------------
(* C14: the trace-file format as a pair of functions over abstract rows.

   A workload is a sequence of pipelines
        [prio, arr, ops |-> << [par |-> <<indices of earlier operators>>, cpu, law, mem, read] >>]
   where cpu / mem / read / arr are value TOKENS (strings: the text of the number; mem = "" means "unset",
   which is different from an explicit "0.0").  A file is a sequence of rows
        [pid, arr, prio, opid, parents |-> <<operator ids>>, cpu, law, mem, read]

   Unparse(w)  the writer's format: one row per operator, ids op1..opN, priority and arrival only on the
               first row of a pipeline, parents as ids of earlier rows
   Parse(r)    the reader: groups consecutive rows by pipeline id and REFUSES a file that breaks a format rule
   C14_RoundTrip   Parse(Unparse(w)) = w      C14_Reproduce   Unparse(Parse(r)) = r (arrival aside)          *)
EXTENDS Integers, Sequences, FiniteSets, TLC

Prios == {"QUERY", "INTERACTIVE", "BATCH_PIPELINE"}
Laws == {"const", "log", "sqrt", "linear3", "linear7", "squared", "exp"}
Refused == [refused |-> TRUE]

OpId(i) == <<"op", i>>          \* abstract operator id (the harness maps "op3" to <<"op", 3>>)
UnparsePipe(p, pid) ==
  [i \in 1..Len(p.ops) |->
     [pid |-> pid, arr |-> IF i = 1 THEN p.arr ELSE "", prio |-> IF i = 1 THEN p.prio ELSE "", opid |-> OpId(i),
      parents |-> [j \in 1..Len(p.ops[i].par) |-> OpId(p.ops[i].par[j])],
      cpu |-> p.ops[i].cpu, law |-> p.ops[i].law, mem |-> p.ops[i].mem, read |-> p.ops[i].read]]
RECURSIVE UnparseFrom(_, _)
UnparseFrom(w, k) == IF k > Len(w) THEN <<>> ELSE UnparsePipe(w[k], k) \o UnparseFrom(w, k + 1)
Unparse(w) == UnparseFrom(w, 1)

\* split rows into maximal runs of equal pipeline id
RECURSIVE Groups(_)
Groups(r) ==
  IF r = <<>> THEN <<>>
  ELSE LET n == CHOOSE m \in 1..Len(r) : (\A i \in 1..m : r[i].pid = r[1].pid) /\ (m = Len(r) \/ r[m + 1].pid # r[1].pid)
       IN <<SubSeq(r, 1, n)>> \o Groups(SubSeq(r, n + 1, Len(r)))

\* the format rules, per group of rows
GroupOK(g) ==
  /\ g[1].prio # "" /\ g[1].arr # ""                                       \* first row carries priority and arrival
  /\ g[1].prio \in Prios                                                   \* a known priority
  /\ \A i \in 2..Len(g) : g[i].prio = "" /\ g[i].arr = ""                  \* later rows carry neither
  /\ \A i \in 1..Len(g) : g[i].law \in Laws                                \* a known scaling law
  /\ \A i \in 1..Len(g) : \A j \in 1..Len(g[i].parents) :                  \* parents are defined by an EARLIER row of the pipeline
        \E h \in 1..(i - 1) : g[h].opid = g[i].parents[j]
WellFormed(r) == \A k \in 1..Len(Groups(r)) : GroupOK(Groups(r)[k])

\* index of the latest earlier row defining that id (a later definition of the same id shadows an earlier one)
DefIndex(g, i, id) == CHOOSE h \in 1..(i - 1) : g[h].opid = id /\ \A h2 \in (h + 1)..(i - 1) : g[h2].opid # id
ParseGroup(g) == [prio |-> g[1].prio, arr |-> g[1].arr,
                  ops |-> [i \in 1..Len(g) |-> [par |-> [j \in 1..Len(g[i].parents) |-> DefIndex(g, i, g[i].parents[j])],
                                                cpu |-> g[i].cpu, law |-> g[i].law, mem |-> g[i].mem, read |-> g[i].read]]]
Parse(r) == IF WellFormed(r) THEN [k \in 1..Len(Groups(r)) |-> ParseGroup(Groups(r)[k])] ELSE Refused

\* rows compared apart from the arrival column
NoArr(r) == [i \in 1..Len(r) |-> [r[i] EXCEPT !.arr = ""]]

=============================================================================
