------------------------------ MODULE EudoxiaOps ------------------------------
(* The eudoxia executor as pure step operators over an explicit state record.

   This is the single source of truth for "what one tick does".  It is used
     - by Eudoxia.tla / Sched*.tla, where TLC model-checks it under every command batch,
     - by TraceExec.tla, where TLC steps it along logs recorded from the real Executor,
     - by the replay generators (TLC behaviours driven into the real code).

   Quantities are integers: ticks, cpus, and memory in "units" (the harness chooses a unit
   such that every input is a whole number of units; the growth per I/O tick, 20 GB/s, is
   the per-segment constant `grow`).

   cfg  = [np, cpucap, ramcap, oc, multi, suspNum, suspDen,            -- configuration
           minOneTick, minSuspTick, checkPool, reconcileOnSuspend]     -- deviation switches
          all switches TRUE = documented behaviour; FALSE = the pinned code's defect (DESIGN §6)
   wl   = << [prio, arr, ops |-> << [par |-> <<indices>>, segs |-> << [io, cpu, fixed, read, grow] >>] >>] >>
          seg.cpu is a sequence indexed by the container's cpu count; seg.fixed = -1 means "grows"
   s    = [ost, pools, ctr, results, crash]
   o    = <<p, i>>   operator i of pipeline p
   h    = [own |-> set of cids, pool |-> set of cids, slen |-> set of <<cid, ticks>>]
          float-band hints (trace validation only; empty in models): a quantity EXACTLY on a limit
          or tick boundary may fall on either side (C05, C10); there, and only there, the observation decides. *)
EXTENDS Integers, Sequences, FiniteSets, TLC, BigNat

Table == [pending    |-> {"assigned"},
          assigned   |-> {"running", "suspending", "failed"},
          running    |-> {"completed", "failed"},
          suspending |-> {"pending"},
          completed  |-> {},
          failed     |-> {"assigned"}]
States == DOMAIN Table

Max(a, b) == IF a > b THEN a ELSE b
Min(a, b) == IF a < b THEN a ELSE b
RECURSIVE SumSeq(_)
SumSeq(q) == IF q = <<>> THEN 0 ELSE Head(q) + SumSeq(Tail(q))
Range(q) == {q[i] : i \in 1..Len(q)}
RemoveOne(q, x) == LET i == CHOOSE j \in 1..Len(q) : q[j] = x IN SubSeq(q, 1, i-1) \o SubSeq(q, i+1, Len(q))
NoHints == [own |-> {}, pool |-> {}, slen |-> {}]
EmptyKlog == [U |-> 0, cons |-> 0, own |-> {}, cands |-> <<>>, victims |-> {}]

(* ---------------------------------------------------------------------------------- *)
(* operator lifecycle (PipelineRuntimeStatus.transition)                                *)
(* ---------------------------------------------------------------------------------- *)
Ost(s, o)          == s.ost[o[1]][o[2]]
SetOst(s, o, st)   == [s EXCEPT !.ost[o[1]][o[2]] = st]
ParentsDone(wl, s, o) == \A j \in Range(wl[o[1]].ops[o[2]].par) : s.ost[o[1]][j] = "completed"
CrashWith(s, r)    == IF s.crash = "" THEN [s EXCEPT !.crash = r] ELSE s

Trans(wl, s, o, new) ==
  IF s.crash # "" THEN s
  ELSE IF new \notin Table[Ost(s, o)] THEN CrashWith(s, "transition")
  ELSE IF new = "running" /\ ~ParentsDone(wl, s, o) THEN CrashWith(s, "deps")
  ELSE SetOst(s, o, new)

RECURSIVE TransSeq(_, _, _, _)
TransSeq(wl, s, ops, new) ==
  IF ops = <<>> \/ s.crash # "" THEN s
  ELSE TransSeq(wl, Trans(wl, s, Head(ops), new), Tail(ops), new)

(* ---------------------------------------------------------------------------------- *)
(* S phase: building one Assignment object already moves its operators to ASSIGNED     *)
(* ---------------------------------------------------------------------------------- *)
MkAssignment(wl, s, a) ==
  IF s.crash # "" THEN s
  ELSE IF a.ops = <<>> THEN CrashWith(s, "zero_ops")
  ELSE IF a.cpu <= 0 THEN CrashWith(s, "cpu")
  ELSE IF a.ram <= 0 THEN CrashWith(s, "ram")
  ELSE TransSeq(wl, s, a.ops, "assigned")

RECURSIVE MkAssignments(_, _, _)
MkAssignments(wl, s, as) == IF as = <<>> THEN s ELSE MkAssignments(wl, MkAssignment(wl, s, Head(as)), Tail(as))

(* ---------------------------------------------------------------------------------- *)
(* container progress: the documented time and memory model (C05)                      *)
(* ---------------------------------------------------------------------------------- *)
NSeg(wl, o) == Len(wl[o[1]].ops[o[2]].segs)
SegOf(wl, o, k) == wl[o[1]].ops[o[2]].segs[k]
RawTotal(wl, o, k, cpus) == SegOf(wl, o, k).io + SegOf(wl, o, k).cpu[cpus]
AllZero(wl, o, cpus) == \A j \in 1..NSeg(wl, o) : RawTotal(wl, o, j, cpus) = 0
\* <<io ticks, cpu ticks>> of segment k; an all-zero operator still occupies one (CPU-phase) tick
SegTicks(cfg, wl, o, k, cpus) ==
  IF cfg.minOneTick /\ k = NSeg(wl, o) /\ AllZero(wl, o, cpus) THEN <<0, 1>>
  ELSE <<SegOf(wl, o, k).io, SegOf(wl, o, k).cpu[cpus]>>
SegTotal(cfg, wl, o, k, cpus) == SegTicks(cfg, wl, o, k, cpus)[1] + SegTicks(cfg, wl, o, k, cpus)[2]
OpTotal(cfg, wl, o, cpus) == SumSeq([k \in 1..NSeg(wl, o) |-> SegTotal(cfg, wl, o, k, cpus)])
\* documented: an operator completes on the last tick of its last NON-EMPTY segment.
\* pinned code (minOneTick = FALSE): only inside the literally last segment (D1).
LastBusySeg(cfg, wl, o, cpus) ==
  IF cfg.minOneTick
  THEN CHOOSE k \in 1..NSeg(wl, o) : SegTotal(cfg, wl, o, k, cpus) > 0 /\ \A j \in (k+1)..NSeg(wl, o) : SegTotal(cfg, wl, o, j, cpus) = 0
  ELSE NSeg(wl, o)
HasBusyFrom(cfg, wl, o, k, cpus) == \E j \in k..NSeg(wl, o) : SegTotal(cfg, wl, o, j, cpus) > 0
FirstBusyFrom(cfg, wl, o, k, cpus) == CHOOSE j \in k..NSeg(wl, o) : SegTotal(cfg, wl, o, j, cpus) > 0 /\ \A hh \in k..(j-1) : SegTotal(cfg, wl, o, hh, cpus) = 0

\* memory demand in tick i (0-based) of segment k
InIoPhase(cfg, wl, o, k, i, cpus) == i < SegTicks(cfg, wl, o, k, cpus)[1]
MemOf(cfg, wl, o, k, i, cpus) ==
  LET sg == SegOf(wl, o, k)
  IN IF InIoPhase(cfg, wl, o, k, i, cpus)
     THEN (IF sg.fixed >= 0 THEN sg.fixed ELSE (i + 1) * sg.grow)
     ELSE (IF sg.fixed >= 0 THEN sg.fixed ELSE sg.read)
\* only a GROWING I/O tick is computed as a float product by the code: band on exact equality
Banded(cfg, wl, o, k, i, cpus) == SegOf(wl, o, k).fixed < 0 /\ InIoPhase(cfg, wl, o, k, i, cpus)

SetMem(s, cid, m) == LET c == s.ctr[cid] IN
  [s EXCEPT !.ctr[cid].mem = m, !.pools[c.pool].cons = @ + m - c.mem]

(* one tick of active container cid (not done).  c.idx = number of completed operators;
   c.seg = 0 means the current operator has not started; (seg, i) is the NEXT tick to run. *)
Advance(cfg, wl, s, cid, h) ==
  IF s.crash # "" THEN s ELSE
  \* (total: a live container with no operator left cannot arise from Init; a trace monitor can be put there by an observation
  \*  that contradicts itself, e.g. two containers under one id, and must then report, not stop)
  IF s.ctr[cid].idx >= Len(s.ctr[cid].ops) THEN CrashWith(s, "no_operator_left") ELSE
  LET c  == s.ctr[cid]
      o  == c.ops[c.idx + 1]
      s1 == IF c.seg = 0 THEN Trans(wl, s, o, "running") ELSE s
  IN IF s1.crash # "" THEN s1
     ELSE IF c.seg = 0 /\ ~HasBusyFrom(cfg, wl, o, 1, c.cpu) THEN CrashWith(s1, "zero_tick_op")  \* only when ~cfg.minOneTick
     ELSE
     LET k   == IF c.seg = 0 THEN FirstBusyFrom(cfg, wl, o, 1, c.cpu) ELSE c.seg
         i   == IF c.seg = 0 THEN 0 ELSE c.i
         mem == MemOf(cfg, wl, o, k, i, c.cpu)
         tot == SegTotal(cfg, wl, o, k, c.cpu)
         s2  == [SetMem(s1, cid, mem) EXCEPT !.ctr[cid].seg = k, !.ctr[cid].i = i, !.ctr[cid].ticks = @ + 1]
         over == mem > c.ram \/ (mem = c.ram /\ Banded(cfg, wl, o, k, i, c.cpu) /\ cid \in h.own)
     IN IF over THEN s2                                    \* frozen: no progress, `can` untouched; E5 kills it
        ELSE IF i = tot - 1 /\ k = LastBusySeg(cfg, wl, o, c.cpu)
             THEN LET s3  == Trans(wl, s2, o, "completed")
                      fin == c.idx + 1 = Len(c.ops)
                      s4  == IF fin THEN SetMem(s3, cid, 0) ELSE s3
                  IN [s4 EXCEPT !.ctr[cid].idx = @ + 1, !.ctr[cid].seg = 0, !.ctr[cid].i = 0,
                                !.ctr[cid].can = ~fin, !.ctr[cid].done = fin]
        ELSE IF i = tot - 1
             THEN IF HasBusyFrom(cfg, wl, o, k + 1, c.cpu)
                  THEN [s2 EXCEPT !.ctr[cid].seg = FirstBusyFrom(cfg, wl, o, k + 1, c.cpu), !.ctr[cid].i = 0, !.ctr[cid].can = FALSE]
                  ELSE CrashWith(s2, "zero_tick_op")       \* pinned code: trailing empty segment, operator never completes
        ELSE [s2 EXCEPT !.ctr[cid].i = i + 1, !.ctr[cid].can = FALSE]

KillErr(wl, s, cid, err) ==
  LET c  == s.ctr[cid]
      s1 == TransSeq(wl, s, SubSeq(c.ops, c.idx + 1, Len(c.ops)), "failed")
  IN IF s1.crash # "" THEN s1
     ELSE [SetMem(s1, cid, 0) EXCEPT !.ctr[cid].err = err, !.ctr[cid].done = TRUE]
Kill(wl, s, cid) == KillErr(wl, s, cid, "OOM")
\* Container.kill(error) called from outside between two ticks (a public method): the unfinished operators fail at once, the memory is
\* dropped; the container is reaped - failure result naming that error, allocation returned - by the pool's next tick, which does not
\* advance it any more.  Only a live container (running, not ended) can be killed.
ExternalKill(cfg, wl, s, cid, err) ==
  IF s.crash # "" THEN s
  ELSE IF ~(\E k \in 1..cfg.np : cid \in Range(s.pools[k].active)) \/ s.ctr[cid].done \/ err = "" THEN CrashWith(s, "kill_invalid")
  ELSE [KillErr(wl, s, cid, err) EXCEPT !.ctr[cid].can = FALSE]          \* an ended container is not at an operator boundary (D12, fixed)

\* suspension = writing the allocation to disk at 20 GB/s: floor(ram/20 * tps) ticks, at least one (C10)
SuspTicks(cfg, ram) ==
  LET t == (ram * cfg.suspNum) \div cfg.suspDen IN IF cfg.minSuspTick THEN Max(1, t) ELSE t
\* exactly on a tick boundary the float quotient may come out one tick short (12 GB at 5 ticks/s: 0.6/0.2 = 2.9999999999999996)
SuspTicksH(cfg, ram, cid, h) ==
  LET t == SuspTicks(cfg, ram) IN
  IF (ram * cfg.suspNum) % cfg.suspDen = 0 /\ t >= 2 /\ <<cid, t - 1>> \in h.slen THEN t - 1 ELSE t

(* ---------------------------------------------------------------------------------- *)
(* E phase for pool k                                                                  *)
(* ---------------------------------------------------------------------------------- *)
Usage(s, k) == SumSeq([j \in 1..Len(s.pools[k].active) |-> s.ctr[s.pools[k].active[j]].mem])

RECURSIVE ApplySuspends(_, _, _, _, _, _)
ApplySuspends(cfg, wl, s, k, sus, h) ==
  IF sus = <<>> \/ s.crash # "" THEN s
  ELSE LET cid == Head(sus).cid IN
       IF cid \notin Range(s.pools[k].active) THEN CrashWith(s, "suspend_unknown")
       ELSE LET c  == s.ctr[cid]
                s1 == TransSeq(wl, s, SubSeq(c.ops, c.idx + 1, Len(c.ops)), "suspending")
            IN IF s1.crash # "" THEN s1
               ELSE ApplySuspends(cfg, wl,
                      [s1 EXCEPT !.ctr[cid].sleft = SuspTicksH(cfg, c.ram, cid, h),
                                 !.ctr[cid].slen  = SuspTicksH(cfg, c.ram, cid, h),
                                 !.pools[k].suspending = Append(@, cid),
                                 !.pools[k].active = RemoveOne(@, cid)], k, Tail(sus), h)

NewCtr(k, a) == [pool |-> k, ops |-> a.ops, cpu |-> a.cpu, ram |-> a.ram, idx |-> 0, seg |-> 0, i |-> 0,
                 mem |-> 0, can |-> FALSE, done |-> FALSE, err |-> "", sleft |-> -1, slen |-> -1, ticks |-> 0,
                 sdone |-> 0, out |-> "none", freed |-> 0]

RECURSIVE StartContainers(_, _, _, _)
StartContainers(cfg, s, k, as) ==
  IF as = <<>> \/ s.crash # "" THEN s
  ELSE LET a == Head(as) IN
       IF (cfg.multi /\ Len(a.ops) < 1) \/ (~cfg.multi /\ Len(a.ops) # 1) THEN CrashWith(s, "nops")
       ELSE LET cid == Len(s.ctr) + 1
            IN StartContainers(cfg, [s EXCEPT !.ctr = Append(@, NewCtr(k, a)),
                                              !.pools[k].acpu = @ - a.cpu, !.pools[k].aram = @ - a.ram,
                                              !.pools[k].active = Append(@, cid)], k, Tail(as))

RECURSIVE TickSuspending(_, _, _, _)
TickSuspending(wl, s, k, cids) ==
  IF cids = <<>> \/ s.crash # "" THEN s
  ELSE LET cid == Head(cids) c == s.ctr[cid] left == c.sleft - 1 IN
       IF left = 0
       THEN LET s1 == TransSeq(wl, s, SubSeq(c.ops, c.idx + 1, Len(c.ops)), "pending") IN
            IF s1.crash # "" THEN s1 ELSE
            TickSuspending(wl, [s1 EXCEPT !.ctr[cid].sleft = 0, !.ctr[cid].sdone = @ + 1, !.ctr[cid].out = "suspended", !.ctr[cid].freed = @ + 1,
                                          !.pools[k].acpu = @ + c.cpu, !.pools[k].aram = @ + c.ram,
                                          !.pools[k].suspending = RemoveOne(@, cid),
                                          !.pools[k].suspended = Append(@, cid)], k, Tail(cids))
       ELSE TickSuspending(wl, [s EXCEPT !.ctr[cid].sleft = left, !.ctr[cid].sdone = @ + 1], k, Tail(cids))

RECURSIVE TickActive(_, _, _, _, _)
TickActive(cfg, wl, s, cids, h) ==
  IF cids = <<>> \/ s.crash # "" THEN s
  ELSE TickActive(cfg, wl, IF s.ctr[Head(cids)].done THEN s ELSE Advance(cfg, wl, s, Head(cids), h), Tail(cids), h)

\* E5 step 1: containers over their own limit (a frozen container; incl. the exact-equality band)
OverOwn(cfg, wl, s, cid, h) ==
  LET c == s.ctr[cid] IN
  ~c.done /\ (c.mem > c.ram \/ (c.mem = c.ram /\ c.seg > 0 /\ cid \in h.own
                                /\ Banded(cfg, wl, c.ops[c.idx + 1], c.seg, c.i, c.cpu)))
RECURSIVE KillOwn(_, _, _, _, _)
KillOwn(cfg, wl, s, cids, h) ==
  IF cids = <<>> \/ s.crash # "" THEN s
  ELSE KillOwn(cfg, wl, IF OverOwn(cfg, wl, s, Head(cids), h) THEN Kill(wl, s, Head(cids)) ELSE s, Tail(cids), h)

\* E5 step 2: pool-level victims by score usage^2/allocation, descending, stable (C11)
Small3(c, d) == c.mem <= 1280 /\ d.mem <= 1280 /\ c.ram <= 1280 /\ d.ram <= 1280            \* products below 2^31: plain integers are exact
ScoreGt(c, d) == IF Small3(c, d) THEN c.mem * c.mem * d.ram > d.mem * d.mem * c.ram
                 ELSE ProdCmp(<<c.mem, c.mem, d.ram>>, <<d.mem, d.mem, c.ram>>) = 1
Candidates(s, k) == SelectSeq(s.pools[k].active, LAMBDA cid : ~s.ctr[cid].done /\ s.ctr[cid].mem > 0)
ScoreEq(c, d) == IF Small3(c, d) THEN c.mem * c.mem * d.ram = d.mem * d.mem * c.ram
                 ELSE ProdCmp(<<c.mem, c.mem, d.ram>>, <<d.mem, d.mem, c.ram>>) = 0
\* x is killed before y: strictly higher score; scores EXACTLY tied may come out either way in floating point, so among
\* tied candidates the observed victims (hint, trace validation only) go first; otherwise the pool's container order (stable sort)
Before(s, x, y, h) == ScoreGt(s.ctr[x], s.ctr[y]) \/ (ScoreEq(s.ctr[x], s.ctr[y]) /\ x \in h.pool /\ y \notin h.pool)
RECURSIVE InsertByScore(_, _, _, _)
InsertByScore(s, sorted, x, h) ==          \* after every element it does not come strictly before
  IF sorted = <<>> THEN <<x>>
  ELSE IF Before(s, x, Head(sorted), h) THEN <<x>> \o sorted
  ELSE <<Head(sorted)>> \o InsertByScore(s, Tail(sorted), x, h)
RECURSIVE SortByScore(_, _, _, _)
SortByScore(s, todo, acc, h) == IF todo = <<>> THEN acc ELSE SortByScore(s, Tail(todo), InsertByScore(s, acc, Head(todo), h), h)
KillOrder(s, k, h) == SortByScore(s, Candidates(s, k), <<>>, h)

OverCap(cfg, s, k, next, h) == s.pools[k].cons > cfg.ramcap \/ (s.pools[k].cons = cfg.ramcap /\ next \in h.pool)
RECURSIVE KillLoop(_, _, _, _, _, _)
KillLoop(cfg, wl, s, k, cands, h) ==
  IF cands = <<>> \/ s.crash # "" \/ ~OverCap(cfg, s, k, Head(cands), h) THEN s
  ELSE KillLoop(cfg, wl, Kill(wl, s, Head(cands)), k, Tail(cands), h)
KillPool(cfg, wl, s, k, h) ==
  IF s.crash # "" THEN s
  ELSE LET order == KillOrder(s, k, h) IN
       IF order = <<>> THEN s ELSE KillLoop(cfg, wl, s, k, order, h)

RECURSIVE Reap(_, _, _, _)
Reap(s, k, cids, any) ==
  IF cids = <<>> THEN (IF any THEN [s EXCEPT !.pools[k].cons = Usage(s, k)] ELSE s)
  ELSE LET cid == Head(cids) c == s.ctr[cid] IN
       IF c.done
       THEN Reap([s EXCEPT !.pools[k].acpu = @ + c.cpu, !.pools[k].aram = @ + c.ram,
                           !.pools[k].active = RemoveOne(@, cid),
                           !.pools[k].ncomp = IF c.err = "" THEN @ + 1 ELSE @,
                           !.pools[k].ticktimes = Append(@, c.ticks),
                           !.ctr[cid].out = IF c.err = "" THEN "success" ELSE "failure",
                           !.ctr[cid].freed = @ + 1,
                           !.results = Append(@, [cid |-> cid, err |-> c.err, pool |-> k])], k, Tail(cids), TRUE)
       ELSE Reap(s, k, Tail(cids), any)

PoolTick(cfg, wl, s, k, sus, as, h) ==
  IF s.crash # "" THEN s ELSE
  LET ps == SelectSeq(sus, LAMBDA x : x.pool = k)
      pa == SelectSeq(as,  LAMBDA x : x.pool = k)
      \* E1: verify all, then apply
      badsus == \E j \in 1..Len(ps) : ps[j].cid \notin Range(s.pools[k].active)
      notcan == \E j \in 1..Len(ps) : ps[j].cid \in Range(s.pools[k].active) /\ ~s.ctr[ps[j].cid].can
      s1a == IF badsus THEN CrashWith(s, "suspend_unknown")
             ELSE IF notcan THEN CrashWith(s, "suspend_not_boundary")
             ELSE ApplySuspends(cfg, wl, s, k, ps, h)
      \* documented: reported usage is the sum over RUNNING containers; pinned code keeps the suspended one's (D3)
      s1 == IF s1a.crash = "" /\ ps # <<>> /\ cfg.reconcileOnSuspend THEN [s1a EXCEPT !.pools[k].cons = Usage(s1a, k)] ELSE s1a
      \* E2: verify the batch as a whole, then create containers
      cpuSum == SumSeq([j \in 1..Len(pa) |-> pa[j].cpu])
      ramSum == SumSeq([j \in 1..Len(pa) |-> pa[j].ram])
      s2 == IF s1.crash # "" \/ pa = <<>> THEN s1
            ELSE IF cpuSum > s1.pools[k].acpu THEN CrashWith(s1, "over_cpu")
            ELSE IF ~cfg.oc /\ ramSum > s1.pools[k].aram THEN CrashWith(s1, "over_ram")
            ELSE StartContainers(cfg, s1, k, pa)
      s3 == IF s2.crash # "" THEN s2 ELSE TickSuspending(wl, s2, k, s2.pools[k].suspending)
      s4 == IF s3.crash # "" THEN s3 ELSE TickActive(cfg, wl, s3, s3.pools[k].active, h)
      s5 == IF s4.crash # "" THEN s4 ELSE KillOwn(cfg, wl, s4, s4.pools[k].active, h)
      s6 == KillPool(cfg, wl, s5, k, h)
      \* ghost: what the OOM killer saw and did in this tick (C04/C11 clauses are stated over it)
      act == s4.pools[k].active
      kl == [U     |-> IF s5.crash = "" THEN Usage(s5, k) ELSE 0,
             cons  |-> IF s5.crash = "" THEN s5.pools[k].cons ELSE 0,
             own   |-> {cid \in Range(act) : s5.crash = "" /\ s5.ctr[cid].done /\ ~s4.ctr[cid].done},
             cands |-> IF s5.crash = "" THEN [j \in 1..Len(Candidates(s5, k)) |->
                          LET cid == Candidates(s5, k)[j] IN [cid |-> cid, mem |-> s5.ctr[cid].mem, ram |-> s5.ctr[cid].ram]] ELSE <<>>,
             victims |-> {cid \in Range(act) : s6.crash = "" /\ s5.crash = "" /\ s6.ctr[cid].done /\ ~s5.ctr[cid].done}]
  IN IF s6.crash # "" THEN s6 ELSE Reap([s6 EXCEPT !.klog[k] = kl], k, s6.pools[k].active, FALSE)

RECURSIVE PoolTicks(_, _, _, _, _, _, _)
PoolTicks(cfg, wl, s, k, sus, as, h) ==
  IF k > cfg.np \/ s.crash # "" THEN s ELSE PoolTicks(cfg, wl, PoolTick(cfg, wl, s, k, sus, as, h), k + 1, sus, as, h)

BadPool(cfg, sus, as) == (\E j \in 1..Len(sus) : sus[j].pool \notin 1..cfg.np) \/ (\E j \in 1..Len(as) : as[j].pool \notin 1..cfg.np)

ExecTickH(cfg, wl, s, sus, as, h) ==
  LET s0 == [s EXCEPT !.results = <<>>, !.klog = [k \in 1..cfg.np |-> EmptyKlog]]
  IN IF BadPool(cfg, sus, as) /\ cfg.checkPool THEN CrashWith(s0, "no_such_pool") ELSE PoolTicks(cfg, wl, s0, 1, sus, as, h)
ExecTick(cfg, wl, s, sus, as) == ExecTickH(cfg, wl, s, sus, as, NoHints)

\* would the executor reject this batch?  (used by the admissibility contract C08)
Rejects(cfg, wl, s, sus, as) == ExecTick(cfg, wl, s, sus, as).crash # ""

InitPool(cfg) == [acpu |-> cfg.cpucap, aram |-> cfg.ramcap, cons |-> 0, active |-> <<>>, suspending |-> <<>>,
                  suspended |-> <<>>, ncomp |-> 0, ticktimes |-> <<>>]
InitState(cfg, wl) ==
  [ost     |-> [p \in 1..Len(wl) |-> [i \in 1..Len(wl[p].ops) |-> "pending"]],
   pools   |-> [k \in 1..cfg.np |-> InitPool(cfg)],
   ctr     |-> <<>>,
   results |-> <<>>,
   klog    |-> [k \in 1..cfg.np |-> EmptyKlog],
   crash   |-> ""]

(* ---------------------------------------------------------------------------------- *)
(* state predicates shared by the model-checking specs and the trace monitors          *)
(* ---------------------------------------------------------------------------------- *)
AllOpsOf(wl) == UNION {{<<p, i>> : i \in 1..Len(wl[p].ops)} : p \in 1..Len(wl)}
Live(s, k) == Range(s.pools[k].active) \cup Range(s.pools[k].suspending)
AllLive(cfg, s) == UNION {Live(s, k) : k \in 1..cfg.np}
SumSet(S, f(_)) == LET RECURSIVE Go(_) Go(T) == IF T = {} THEN 0 ELSE LET x == CHOOSE y \in T : TRUE IN f(x) + Go(T \ {x}) IN Go(S)
AllocCpu(s, k) == SumSeq([j \in 1..Len(s.pools[k].active) |-> s.ctr[s.pools[k].active[j]].cpu])
               +  SumSeq([j \in 1..Len(s.pools[k].suspending) |-> s.ctr[s.pools[k].suspending[j]].cpu])
AllocRam(s, k) == SumSeq([j \in 1..Len(s.pools[k].active) |-> s.ctr[s.pools[k].active[j]].ram])
               +  SumSeq([j \in 1..Len(s.pools[k].suspending) |-> s.ctr[s.pools[k].suspending[j]].ram])
UnfinishedOps(c) == {c.ops[j] : j \in (c.idx + 1)..Len(c.ops)}
===============================================================================
