----------------------------- MODULE TraceSched -----------------------------
(* Trace validation of the shipped scheduling policies (C08, C12, C16, C17, C18): every round of
   every recorded simulation (real scheduler function inside the unmodified run_simulator) is
   checked against the contracts of SchedContracts.tla.  Needs no stepping: the contracts speak
   about the observed state before the round, the decisions, and the operator states after it.   *)
EXTENDS SchedContracts, TLC, Json, IOUtils

TraceLog == ndJsonDeserialize(IOEnv.TRACE_FILE)
VARIABLES l, cfg, wl, g, dead
vars == <<l, cfg, wl, g, dead>>

RViol == 1 RLines == 2 RTraces == 3
RRounds == 10 RAsg == 11 RSus == 12 RWaiting == 13 RRetry == 14 RCutoff == 15 RStrikes == 16 RFirst == 17 RContended == 18 RRaise == 19 RQueryWait == 20
Regs == {1, 2, 3} \cup 10..20
Bump(r, n) == TLCSet(r, TLCGet(r) + n)
Flag(e, name, ok, detail) == IF ok THEN TRUE ELSE PrintT(<<"VIOL", e.tid, e.t, name, detail>>) /\ Bump(RViol, 1)

View(e) == [ost |-> e.pre.ost,
            pools |-> [k \in 1..Len(e.pre.pools) |->
                         [acpu |-> e.pre.pools[k].acpu, aram |-> e.pre.pools[k].aram,
                          active |-> [j \in 1..Len(e.pre.pools[k].active) |->
                                        [cid |-> e.pre.pools[k].active[j].cid, prio |-> e.pre.pools[k].active[j].prio, can |-> e.pre.pools[k].active[j].can,
                                         ops |-> e.pre.pools[k].active[j].ops]]]]]
RoundOf(e) == [new |-> e.new, results |-> e.results, sus |-> e.sus, asg |-> e.asg]
Brief(e) == <<"sus", e.sus, "asg", e.asg>>

Check(e) ==
  LET V == View(e) R == RoundOf(e) post == e.obs.ost
      G == GhostBefore(cfg, wl, V, R, g)
      pol == cfg.policy
  IN
  /\ Bump(RRounds, 1) /\ Bump(RAsg, Len(R.asg)) /\ Bump(RSus, Len(R.sus))
  /\ Bump(RWaiting, IF WaitingPending(wl, G, post) # {} THEN 1 ELSE 0)
  /\ Bump(RQueryWait, IF WaitingQueryOps(wl, G, post) # {} THEN 1 ELSE 0)
  /\ Bump(RRetry, Cardinality({j \in 1..Len(R.asg) : \E m \in 1..Len(R.asg[j].ops) : OstOf(V.ost, R.asg[j].ops[m]) = "failed"}))
  /\ Bump(RCutoff, Cardinality(G.abandoned) - Cardinality(g.abandoned))
  /\ Bump(RStrikes, Cardinality({p \in 1..Len(G.nfail) : G.nfail[p] >= 3 /\ (p > Len(g.nfail) \/ g.nfail[p] < 3)}))
  /\ Bump(RFirst, Cardinality(FirstNow(G, R)))
  /\ Bump(RContended, IF R.asg # <<>> /\ WaitingPending(wl, G, post) # {} THEN 1 ELSE 0)
  /\ Flag(e, "C08.NoRaise.round", e.raised = "", e.raised)
  /\ (e.raised = "" =>
      /\ Flag(e, "C08.Admissible.PoolsExist", C08_PoolsExist(cfg, R), Brief(e))
      /\ (C08_PoolsExist(cfg, R) =>
          /\ Flag(e, "C08.Admissible.NotOversold", C08_NotOversold(cfg, V, R), <<Brief(e), [k \in 1..cfg.np |-> <<V.pools[k].acpu, V.pools[k].aram>>]>>)
          /\ Flag(e, "C08.Admissible.WellFormed", C08_WellFormed(cfg, R), Brief(e))
          /\ Flag(e, "C08.Admissible.NoDoubleAssignment", C08_NoDoubleAssignment(V, R), Brief(e))
          /\ Flag(e, "C08.Admissible.DependencyOrder", C08_DependencyOrder(wl, V, R), Brief(e))
          /\ Flag(e, "C08.Admissible.SuspendableOnly", C08_SuspendableOnly(cfg, V, R), Brief(e))
          /\ (pol = "naive" =>
               /\ Flag(e, "C17.OnePerPool", C17_OnePerPool(cfg, R), Brief(e))
               /\ Flag(e, "C17.WholePool", C17_WholePool(V, R), <<Brief(e), [k \in 1..cfg.np |-> <<V.pools[k].acpu, V.pools[k].aram>>]>>)
               /\ Flag(e, "C17.NoSuspend", C17_NoSuspend(R), Brief(e))
               /\ Flag(e, "C17.NoWorkAfterFailure", C17_NoWorkAfterFailure(wl, V, R), Brief(e))
               /\ Flag(e, "C17.SingleOpIsReady", C17_SingleOpIsReady(cfg, wl, V, R), Brief(e))
               /\ Flag(e, "C17.FifoFirstContainer", C17_FifoFirstContainer(G, R), <<Brief(e), "arrived", G.arrived, "started", G.started>>))
          /\ (pol = "overbook" =>
               /\ Flag(e, "C18.Shape", C18_Shape(cfg, wl, V, R), Brief(e))
               /\ Flag(e, "C18.CpuBound", C18_CpuBound(cfg, V, R), Brief(e))
               /\ Flag(e, "C18.NoSuspend", R.sus = <<>>, Brief(e))
               /\ Flag(e, "C18.ThreeStrikes", C18_ThreeStrikes(G, R), <<Brief(e), G.nfail>>)
               /\ Flag(e, "C18.WorkConserving", C18_WorkConserving(cfg, wl, V, R, G, post), <<Brief(e), "post", post, "nfail", G.nfail>>))
          /\ (pol = "priority-pool" =>
               /\ Flag(e, "C16.PoolOfPriority", C16_PoolOfPriority(wl, R), Brief(e))
               /\ Flag(e, "C16.NoSuspensions", C16_NoSuspensions(R), Brief(e))
               /\ Flag(e, "C16.RetryTogether", C16_RetryTogether(V, R, G), <<Brief(e), G.lastFailed>>)
               /\ Flag(e, "C16.HalfPoolCutoff", C16_HalfPoolCutoff(R, G), <<Brief(e), G.abandoned>>))
          /\ (pol \in {"priority", "priority-pool"} =>
               /\ Flag(e, "C12.WorkConserving", C12_WorkConserving(cfg, pol, wl, V, R, G, post),
                       <<Brief(e), "waiting", WaitingPending(wl, G, post), "free", [k \in 1..cfg.np |-> <<FreeCpuAfter(V, R, k), FreeRamAfter(V, R, k)>>]>>)
               /\ Flag(e, "C12.StrictPriority", C12_StrictPriority(cfg, pol, wl, V, R, G, post), <<Brief(e), "waiting", WaitingPending(wl, G, post)>>)
               /\ Flag(e, "C12.FifoFirstContainer", C12_FifoFirstContainer(wl, G, R), <<Brief(e), "arrived", G.arrived, "started", G.started>>)
               /\ Flag(e, "C12.SuspendRules", C12_SuspendRules(cfg, pol, wl, V, R, G, post), <<Brief(e), "waiting queries", WaitingQueryOps(wl, G, post)>>))))
  /\ g' = GhostAfter(R, G)

Init == l = 1 /\ cfg = [policy |-> "none"] /\ wl = <<>> /\ g = InitGhost /\ dead = FALSE /\ \A r \in Regs : TLCSet(r, 0)
Step(e) ==
  CASE e.ev = "hdr" -> /\ cfg' = e.cfg /\ wl' = <<>> /\ g' = InitGhost /\ dead' = FALSE /\ Bump(RTraces, 1)
    [] e.ev = "arrive" -> /\ wl' = Append(wl, [prio |-> e.wl.prio, ops |-> [i \in 1..Len(e.wl.ops) |-> [par |-> e.wl.ops[i].par]]])
                          /\ UNCHANGED <<cfg, g, dead>>
    [] e.ev = "round" /\ ~dead -> Check(e) /\ dead' = (e.raised # "") /\ UNCHANGED <<cfg, wl>>
    [] e.ev = "raise" -> /\ Bump(RRaise, 1)
                         /\ Flag(e, "C08.NoRaise", FALSE, <<e.where, e.exc, e.msg, "policy", cfg.policy, "multi", cfg.multi>>)
                         /\ dead' = TRUE /\ UNCHANGED <<cfg, wl, g>>
    [] e.ev = "end" -> /\ Flag(e, "C08.ReturnsStatistics", e.ok \/ dead, "run_simulator returned no statistics")
                       /\ UNCHANGED <<cfg, wl, g, dead>>
    [] OTHER -> UNCHANGED <<cfg, wl, g, dead>>
Next == l <= Len(TraceLog) /\ Step(TraceLog[l]) /\ TLCSet(RLines, l) /\ l' = l + 1
Spec == Init /\ [][Next]_vars
Consumed == /\ PrintT(<<"COUNT", "rounds", TLCGet(RRounds), "assignments", TLCGet(RAsg), "suspensions", TLCGet(RSus), "rounds_with_waiting_ready_op", TLCGet(RWaiting),
                        "rounds_with_waiting_query", TLCGet(RQueryWait), "retries", TLCGet(RRetry), "cutoff_ops", TLCGet(RCutoff), "three_strikes", TLCGet(RStrikes),
                        "first_containers", TLCGet(RFirst), "contended_rounds", TLCGet(RContended), "raises", TLCGet(RRaise)>>)
            /\ PrintT(<<"SUMMARY", "viol", TLCGet(RViol), "lines", TLCGet(RLines), "traces", TLCGet(RTraces)>>)
=============================================================================
