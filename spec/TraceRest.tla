------------------------------- MODULE TraceRest -------------------------------
(* C19, binding side: every scheduling round of a run driven over HTTP (loop-back server): the request body, translated
   into the specification's terms by the harness, against the ground truth recorded at that moment; the protocol
   promises (RestBridge.tla); the reply against the commands that reached the executor; and the statistics against an
   in-process run issuing the same decisions.                                                                         *)
EXTENDS Integers, Sequences, FiniteSets, TLC, Json, IOUtils
TraceLog == ndJsonDeserialize(IOEnv.TRACE_FILE)
VARIABLES l, cfg, wl, known, reported, last
vars == <<l, cfg, wl, known, reported, last>>
RViol == 1 RLines == 2 RTraces == 3 RCalls == 10 RIdle == 11 REventCalls == 12 RCompleted == 13 RAsg == 14 RSus == 15 RSkipped == 16
Regs == {1, 2, 3} \cup 10..16
Bump(r, n) == TLCSet(r, TLCGet(r) + n)
Flag(e, name, ok, detail) == IF ok THEN TRUE ELSE PrintT(<<"VIOL", e.tid, e.t, name, detail>>) /\ Bump(RViol, 1)
Rng(q) == {q[i] : i \in 1..Len(q)}
Abs(x) == IF x < 0 THEN -x ELSE x

ParentsDone(ost, p, i) == \A j \in Rng(wl[p].ops[i].par) : ost[p][j] = "completed"
TruePipe(e, p) ==     \* what a pipeline record must say at this moment
  [p |-> p, prio |-> wl[p].prio, arr |-> wl[p].arr,
   complete |-> \A i \in 1..Len(wl[p].ops) : e.pre.ost[p][i] = "completed",
   failures |-> \E i \in 1..Len(wl[p].ops) : e.pre.ost[p][i] = "failed",
   ops |-> [i \in 1..Len(wl[p].ops) |-> [ref |-> <<p, i>>, state |-> e.pre.ost[p][i],
                                          assignable |-> e.pre.ost[p][i] \in {"pending", "failed"}, parents |-> ParentsDone(e.pre.ost, p, i)]],
   keys_ok |-> TRUE]
\* operators of the payload are listed in the pipeline's iteration order: compare as sets of records, and the order as a permutation
PipeOK(e, rec) == rec.p \in 1..Len(wl) /\
   LET t == TruePipe(e, rec.p) IN
   /\ rec.prio = t.prio /\ rec.arr = t.arr /\ rec.complete = t.complete /\ rec.failures = t.failures /\ rec.keys_ok
   /\ Len(rec.ops) = Len(t.ops) /\ Rng(rec.ops) = Rng(t.ops)
TruePool(p) == [acpu |-> p.acpu, aram |-> p.aram, cons |-> p.cons,
                active |-> [j \in 1..Len(p.active) |-> [cid |-> p.active[j].cid, cpu |-> p.active[j].cpu, ram |-> p.active[j].ram, mem |-> p.active[j].mem,
                                                        prio |-> p.active[j].prio, ops |-> p.active[j].ops]],
                suspending |-> [j \in 1..Len(p.suspending) |-> p.suspending[j].cid], suspended |-> p.suspended]
ReqPool(p) == [acpu |-> p.acpu, aram |-> p.aram, cons |-> p.cons,
               active |-> [j \in 1..Len(p.active) |-> [cid |-> p.active[j].cid, cpu |-> p.active[j].cpu, ram |-> p.active[j].ram, mem |-> p.active[j].mem,
                                                       prio |-> p.active[j].prio, ops |-> p.active[j].ops]],
               suspending |-> p.suspending, suspended |-> p.suspended]
Res(r) == [cid |-> r.cid, err |-> r.err, pool |-> r.pool, ops |-> r.ops, cpu |-> r.cpu, ram |-> r.ram, prio |-> r.prio]
Cmd(a) == [ops |-> a.ops, cpu |-> a.cpu, ram |-> a.ram, pool |-> a.pool, prio |-> a.prio]

Round(e) ==
  LET event == e.new # <<>> \/ e.results # <<>>
      now == e.t + 1
      req == e.rest.req
      called == e.ncalls >= 1
      newIds == IF called THEN {req.new[j].p : j \in 1..Len(req.new)} ELSE {}
      otherIds == IF called THEN {req.other[j].p : j \in 1..Len(req.other)} ELSE {}
      nowComplete == {p \in known \cup Rng(e.new) : \A i \in 1..Len(wl[p].ops) : e.pre.ost[p][i] = "completed"}
  IN
  /\ Flag(e, "C19.AtMostOneCallPerTick", e.ncalls <= 1, e.ncalls)
  /\ Flag(e, "C19.CallWhenEvent", event => called, <<"new", e.new, "results", Len(e.results)>>)
  /\ (IF called THEN TRUE ELSE Bump(RSkipped, 1))
  /\ called =>
      /\ Bump(RCalls, 1) /\ Bump(RIdle, IF event THEN 0 ELSE 1) /\ Bump(REventCalls, IF event THEN 1 ELSE 0)
      /\ Bump(RAsg, Len(e.rest.reply.asg)) /\ Bump(RSus, Len(e.rest.reply.sus)) /\ Bump(RCompleted, Cardinality(nowComplete \cap known))
      \* an event-less call only if the poll interval has elapsed since the last call (one micro-second of float slack)
      /\ Flag(e, "C19.IdleSpacing", ~event => (now - last) * 1000000 >= cfg.poll_num * cfg.tps - cfg.tps, <<"now", now, "last call", last, "poll micro", cfg.poll_num, "tps", cfg.tps>>)
      /\ Flag(e, "C19.Tick", req.tick = now, <<req.tick, now>>)
      /\ Flag(e, "C19.NoResourceLeak", ~req.leak /\ req.topkeys_ok /\ (\A j \in 1..Len(req.new) : req.new[j].keys_ok) /\ (\A j \in 1..Len(req.other) : req.other[j].keys_ok),
              "a request carries more than the documented fields, or a segment's true resource needs")
      /\ Flag(e, "C19.Truthful.results", [j \in 1..Len(req.results) |-> Res(req.results[j])] = [j \in 1..Len(e.results) |-> Res(e.results[j])], <<"request", req.results, "truth", e.results>>)
      /\ Flag(e, "C19.Truthful.pools", Len(req.pools) = Len(e.pre.pools) /\ \A k \in 1..Len(req.pools) : ReqPool(req.pools[k]) = TruePool(e.pre.pools[k])
                                                                            /\ Abs(req.pools[k].aramr - e.pre.pools[k].aramr) <= 2 /\ Abs(req.pools[k].consr - e.pre.pools[k].consr) <= 2,
              <<"request", req.pools, "truth", e.pre.pools>>)
      /\ Flag(e, "C19.Truthful.new", [j \in 1..Len(req.new) |-> req.new[j].p] = e.new /\ \A j \in 1..Len(req.new) : PipeOK(e, req.new[j]), <<"request", req.new, "arrived", e.new>>)
      /\ Flag(e, "C19.Truthful.other", \A j \in 1..Len(req.other) : PipeOK(e, req.other[j]), <<"request", req.other>>)
      /\ Flag(e, "C19.Disjoint", newIds \cap otherIds = {} /\ Cardinality(otherIds) = Len(req.other), <<newIds, otherIds>>)
      \* the previously known pipelines are exactly those told before and not yet reported complete: never again after that
      /\ Flag(e, "C19.KnownExactly", otherIds = known, <<"other", otherIds, "known and not yet reported complete", known, "already reported", reported>>)
      /\ Flag(e, "C19.CompleteExactlyOnce", otherIds \cap reported = {}, <<otherIds, reported>>)
  \* the decisions in the reply are executed exactly as given; without a call nothing is issued
  /\ Flag(e, "C19.DecisionsExecuted",
          IF called THEN [j \in 1..Len(e.sus) |-> <<e.sus[j].cid, e.sus[j].pool>>] = [j \in 1..Len(e.rest.reply.sus) |-> <<e.rest.reply.sus[j].cid, e.rest.reply.sus[j].pool>>]
                         /\ [j \in 1..Len(e.asg) |-> Cmd(e.asg[j])] = [j \in 1..Len(e.rest.reply.asg) |-> Cmd(e.rest.reply.asg[j])]
          ELSE e.sus = <<>> /\ e.asg = <<>>, <<"executed", e.sus, e.asg, "reply", e.rest.reply>>)
  /\ known' = IF called THEN (known \cup Rng(e.new)) \ nowComplete ELSE known
  /\ reported' = IF called THEN reported \cup ((known \cup Rng(e.new)) \cap nowComplete) ELSE reported
  /\ last' = IF called THEN now ELSE last

Step(e) ==
  CASE e.ev = "hdr" -> /\ cfg' = e.cfg /\ wl' = <<>> /\ known' = {} /\ reported' = {} /\ last' = 0 /\ Bump(RTraces, 1)
                       /\ Flag([tid |-> e.tid, t |-> 0], "C19.Init", e.cfg.init_ok, "no /init call with the parameters")
    [] e.ev = "arrive" -> /\ wl' = Append(wl, [prio |-> e.wl.prio, arr |-> e.t, ops |-> [i \in 1..Len(e.wl.ops) |-> [par |-> e.wl.ops[i].par]]])
                          /\ UNCHANGED <<cfg, known, reported, last>>
    [] e.ev = "round" /\ e.raised = "" -> Round(e) /\ UNCHANGED <<cfg, wl>>
    [] e.ev = "end" -> /\ Flag(e, "C19.SameStatistics", e.same_stats, <<"over HTTP", e.stats, "in process", e.stats_inprocess>>)
                       /\ UNCHANGED <<cfg, wl, known, reported, last>>
    [] OTHER -> UNCHANGED <<cfg, wl, known, reported, last>>
Init == l = 1 /\ cfg = [policy |-> "none"] /\ wl = <<>> /\ known = {} /\ reported = {} /\ last = 0 /\ \A r \in Regs : TLCSet(r, 0)
Next == l <= Len(TraceLog) /\ Step(TraceLog[l]) /\ TLCSet(RLines, l) /\ l' = l + 1
Spec == Init /\ [][Next]_vars
Consumed == /\ PrintT(<<"COUNT", "runs", TLCGet(RTraces), "calls", TLCGet(RCalls), "idle_calls", TLCGet(RIdle), "event_calls", TLCGet(REventCalls), "ticks_without_call", TLCGet(RSkipped),
                        "pipelines_reported_complete", TLCGet(RCompleted), "assignments", TLCGet(RAsg), "suspensions", TLCGet(RSus)>>)
            /\ PrintT(<<"SUMMARY", "viol", TLCGet(RViol), "lines", TLCGet(RLines), "traces", TLCGet(RTraces)>>)
=============================================================================
