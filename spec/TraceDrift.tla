------------------------------ MODULE TraceDrift ------------------------------
(* Keeps the transcribed policies honest: SchedPolicies.tla is stepped along recorded runs of the REAL policy functions.
   Before every round the model's view is rebuilt from the observation (operator states, pools, containers, results handed
   in); only the policy's private queues are carried by the model.  The decisions of the round - suspensions and
   assignments, field by field and in order - are compared with what the real policy decided.

   No property fixes a policy's exact decisions (the contracts of SchedContracts.tla say what is promised), so a difference
   is reported as DRIFT (informational, exit 0): it means the transcription - and therefore what TLC model-checks in
   Sched.tla - no longer describes the code.                                                                          *)
EXTENDS EudoxiaOps, DagOps, Json, IOUtils
TraceLog == ndJsonDeserialize(IOEnv.TRACE_FILE)
VARIABLES l, cfg, wl, priv, off
vars == <<l, cfg, wl, priv, off>>
Pol == INSTANCE SchedPolicies WITH Policy <- cfg.policy, Cfg <- cfg, NP <- Len(wl), wl <- wl

RDrift == 1 RLines == 2 RTraces == 3 RRounds == 10 RAsg == 11 RSus == 12 RDriftedTraces == 13
Regs == {1, 2, 3} \cup 10..13
Bump(r, n) == TLCSet(r, TLCGet(r) + n)
Known == {"naive", "starter", "overbook", "priority-pool", "priority"}

MaxCid(e) == LET all == UNION {{e.pre.pools[k].active[j].cid : j \in 1..Len(e.pre.pools[k].active)} \cup {e.pre.pools[k].suspending[j].cid : j \in 1..Len(e.pre.pools[k].suspending)}
                                \cup Range(e.pre.pools[k].suspended) : k \in 1..Len(e.pre.pools)} \cup {e.results[j].cid : j \in 1..Len(e.results)}
             IN IF all = {} THEN 0 ELSE CHOOSE m \in all : \A x \in all : x <= m
\* the specification state as the policy sees it, rebuilt from the observation before the round
StateOf(e) ==
  LET act(cid) == {<<k, j>> \in UNION {{<<k, j>> : j \in 1..Len(e.pre.pools[k].active)} : k \in 1..Len(e.pre.pools)} : e.pre.pools[k].active[j].cid = cid}
      sus(cid) == {<<k, j>> \in UNION {{<<k, j>> : j \in 1..Len(e.pre.pools[k].suspending)} : k \in 1..Len(e.pre.pools)} : e.pre.pools[k].suspending[j].cid = cid}
      res(cid) == {j \in 1..Len(e.results) : e.results[j].cid = cid}
      ctrOf(cid) ==
        IF act(cid) # {} THEN LET x == CHOOSE y \in act(cid) : TRUE c == e.pre.pools[x[1]].active[x[2]] IN
             [pool |-> x[1], ops |-> c.ops, cpu |-> c.cpu, ram |-> c.ram, idx |-> c.idx, can |-> c.can, err |-> "", done |-> FALSE]
        ELSE IF sus(cid) # {} THEN LET x == CHOOSE y \in sus(cid) : TRUE c == e.pre.pools[x[1]].suspending[x[2]] IN
             [pool |-> x[1], ops |-> c.ops, cpu |-> c.cpu, ram |-> c.ram, idx |-> c.idx, can |-> FALSE, err |-> "", done |-> FALSE]
        ELSE IF res(cid) # {} THEN LET r == e.results[CHOOSE j \in res(cid) : TRUE] IN
             [pool |-> r.pool, ops |-> r.ops, cpu |-> r.cpu, ram |-> r.ram, idx |-> 0, can |-> FALSE, err |-> r.err, done |-> TRUE]
        ELSE [pool |-> 0, ops |-> <<>>, cpu |-> 0, ram |-> 0, idx |-> 0, can |-> FALSE, err |-> "", done |-> TRUE]
  IN [ost |-> e.pre.ost,
      pools |-> [k \in 1..Len(e.pre.pools) |-> [acpu |-> e.pre.pools[k].acpu, aram |-> e.pre.pools[k].aram,
                                                 active |-> [j \in 1..Len(e.pre.pools[k].active) |-> e.pre.pools[k].active[j].cid],
                                                 suspending |-> [j \in 1..Len(e.pre.pools[k].suspending) |-> e.pre.pools[k].suspending[j].cid],
                                                 suspended |-> e.pre.pools[k].suspended]],
      ctr |-> [cid \in 1..MaxCid(e) |-> ctrOf(cid)], results |-> <<>>, crash |-> ""]
ResultsOf(e) == [j \in 1..Len(e.results) |-> [cid |-> e.results[j].cid, err |-> e.results[j].err, pool |-> e.results[j].pool, ops |-> e.results[j].ops,
                                               cpu |-> e.results[j].cpu, ram |-> e.results[j].ram]]
Asg(q) == [j \in 1..Len(q) |-> [ops |-> q[j].ops, cpu |-> q[j].cpu, ram |-> q[j].ram, pool |-> q[j].pool, prio |-> q[j].prio]]
Sus(q) == [j \in 1..Len(q) |-> [cid |-> q[j].cid, pool |-> q[j].pool]]

Round(e) ==
  LET r == Pol!PolicyRound(StateOf(e), priv, e.new, ResultsOf(e))
      same == Asg(r.asg) = Asg(e.asg) /\ Sus(r.sus) = Sus(e.sus)
  IN /\ Bump(RRounds, 1) /\ Bump(RAsg, Len(e.asg)) /\ Bump(RSus, Len(e.sus))
     /\ (IF same THEN TRUE
         ELSE PrintT(<<"DRIFT", e.tid, e.t, cfg.policy, "model", Asg(r.asg), Sus(r.sus), "code", Asg(e.asg), Sus(e.sus)>>) /\ Bump(RDrift, 1) /\ Bump(RDriftedTraces, 1))
     /\ priv' = r.priv /\ off' = ~same

Step(e) ==
  CASE e.ev = "hdr" -> /\ cfg' = e.cfg /\ wl' = <<>> /\ off' = (e.cfg.policy \notin Known \/ e.cfg.mode # "step") /\ Bump(RTraces, 1)
                       /\ priv' = IF e.cfg.policy \in {"naive", "starter"} THEN [queue |-> <<>>]
                                  ELSE IF e.cfg.policy = "overbook" THEN [opq |-> <<>>, nfail |-> <<>>]
                                  ELSE IF e.cfg.policy = "priority-pool" THEN [qry |-> <<>>, inter |-> <<>>, batch |-> <<>>]
                                  ELSE [qry |-> <<>>, inter |-> <<>>, batch |-> <<>>, susp |-> <<>>]
    [] e.ev = "arrive" -> /\ wl' = Append(wl, [prio |-> e.wl.prio, arr |-> e.t, ops |-> [i \in 1..Len(e.wl.ops) |-> [par |-> e.wl.ops[i].par, segs |-> <<>>]]])
                          /\ priv' = IF cfg.policy = "overbook" THEN [priv EXCEPT !.nfail = Append(@, 0)] ELSE priv
                          /\ UNCHANGED <<cfg, off>>
    [] e.ev = "round" /\ ~off /\ e.raised = "" -> Round(e) /\ UNCHANGED <<cfg, wl>>
    [] OTHER -> UNCHANGED <<cfg, wl, priv, off>>
Init == l = 1 /\ cfg = [policy |-> "none", mode |-> "none"] /\ wl = <<>> /\ priv = <<>> /\ off = TRUE /\ \A r \in Regs : TLCSet(r, 0)
Next == l <= Len(TraceLog) /\ Step(TraceLog[l]) /\ TLCSet(RLines, l) /\ l' = l + 1
Spec == Init /\ [][Next]_vars
Consumed == /\ PrintT(<<"COUNT", "rounds_compared", TLCGet(RRounds), "assignments", TLCGet(RAsg), "suspensions", TLCGet(RSus), "drifted_traces", TLCGet(RDriftedTraces)>>)
            /\ PrintT(<<"SUMMARY", "viol", 0, "lines", TLCGet(RLines), "traces", TLCGet(RTraces)>>)
=============================================================================
