SPECIFICATION Spec
CONSTANTS
  Mean = 0
  Draws <- DrawsB
  MaxTick = 8
INVARIANT C15_FirstEventAtZero
INVARIANT C15_AtLeastOneTickApart
INVARIANT C15_GapIsWaitPlusOne
