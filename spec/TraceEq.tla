------------------------------- MODULE TraceEq -------------------------------
(* C07: reproducibility as equality of behaviours under the model's projection (arrivals, decisions, results per
   tick, statistics; container ids renumbered by creation order).  One line = one parameter set with the behaviours of
     runs[1], runs[2]  the same process, after other simulations
     runs[3], runs[4]  fresh interpreters under different hash seeds
   plus the arrival sub-behaviour under other scheduler/executor settings and under another seed.                  *)
EXTENDS Integers, Sequences, FiniteSets, TLC, Json, IOUtils
TraceLog == ndJsonDeserialize(IOEnv.TRACE_FILE)
VARIABLE l
RViol == 1 RLines == 2 RTraces == 3 REvents == 10 RArr == 11
Bump(r, n) == TLCSet(r, TLCGet(r) + n)
Flag(e, name, ok, detail) == IF ok THEN TRUE ELSE PrintT(<<"VIOL", e.tid, 0, name, detail>>) /\ Bump(RViol, 1)
\* first position at which two behaviours differ (for the report)
FirstDiff(a, b) == IF \E i \in 1..Len(a) : i > Len(b) \/ a[i] # b[i]
                   THEN CHOOSE i \in 1..Len(a) : (i > Len(b) \/ a[i] # b[i]) /\ \A j \in 1..(i - 1) : j <= Len(b) /\ a[j] = b[j]
                   ELSE Len(a) + 1
Check(e) ==
  /\ Bump(RTraces, 1) /\ Bump(REvents, Len(e.runs[1])) /\ Bump(RArr, Len(e.arr))
  /\ \A i \in 2..Len(e.runs) :
       Flag(e, IF i = 2 THEN "C07.SameProcess" ELSE "C07.FreshInterpreter", e.runs[i] = e.runs[1],
            <<"run", i, "first difference at event", FirstDiff(e.runs[1], e.runs[i]), "of", Len(e.runs[1]), Len(e.runs[i])>>)
  /\ Flag(e, "C07.WorkloadIndependentOfSettings", e.arr_other = e.arr, <<"first difference at arrival", FirstDiff(e.arr, e.arr_other)>>)
  /\ Flag(e, "C07.SeedsDiffer", e.arr = <<>> \/ e.arr_seed2 # e.arr, "another seed gave the same workload")
Init == l = 1 /\ \A r \in {1, 2, 3, 10, 11} : TLCSet(r, 0)
Next == l <= Len(TraceLog) /\ Check(TraceLog[l]) /\ TLCSet(RLines, l) /\ l' = l + 1
Spec == Init /\ [][Next]_l
Consumed == /\ PrintT(<<"COUNT", "parameter_sets", TLCGet(RTraces), "events_compared", TLCGet(REvents), "arrivals", TLCGet(RArr)>>)
            /\ PrintT(<<"SUMMARY", "viol", TLCGet(RViol), "lines", TLCGet(RLines), "traces", TLCGet(RTraces)>>)
=============================================================================
