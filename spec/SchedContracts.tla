--------------------------- MODULE SchedContracts ---------------------------
(* Per-policy CONTRACTS (C08, C12, C16, C17, C18): predicates over
     - the observable state before a scheduling round  (V: operator states, per pool free CPU/RAM and running containers),
     - the decisions of that round                     (R: suspensions, assignments, arrivals, results handed in),
     - the operator states after the round             (post),
     - a ghost history                                 (G: arrival order, pipelines already started, failure counts, ...).
   They say what the property statements say and nothing more; in particular they never mention a
   queue or any other scheduler-private structure, so they survive refactoring and apply equally
   to the real scheduler functions (TraceSched.tla) and to the transcribed policies (Sched*.tla).

   wl[p] = [prio |-> "Q"|"I"|"B", ops |-> << [par |-> <<...>>] >>]
   V  = [ost, pools |-> << [acpu, aram, active |-> << [cid, prio, can] >>] >>]
   R  = [new, results, sus |-> << [cid, pool] >>, asg |-> << [ops, cpu, ram, pool, prio] >>]
   G  = [arrived (sequence of pipelines in arrival order), started (set), nfail (function),
         lastFailed (function p -> sequence of operators), abandoned (set of operators)]           *)
EXTENDS Integers, Sequences, FiniteSets

RECURSIVE SumSq(_)
SumSq(q) == IF q = <<>> THEN 0 ELSE Head(q) + SumSq(Tail(q))
Rng(q) == {q[i] : i \in 1..Len(q)}
Assignable == {"pending", "failed"}

OstOf(ost, o) == ost[o[1]][o[2]]
ParOf(wl, o) == Rng(wl[o[1]].ops[o[2]].par)
ParentsCompleted(wl, ost, o) == \A j \in ParOf(wl, o) : ost[o[1]][j] = "completed"
Ready(wl, ost, o) == OstOf(ost, o) \in Assignable /\ ParentsCompleted(wl, ost, o)
ReadyPending(wl, ost, o) == OstOf(ost, o) = "pending" /\ ParentsCompleted(wl, ost, o)
OpsOfPipe(wl, p) == {<<p, i>> : i \in 1..Len(wl[p].ops)}
Arrived(G) == Rng(G.arrived)
ArrivedOps(wl, G) == UNION {OpsOfPipe(wl, p) : p \in Arrived(G)}
PosIn(q, x) == CHOOSE i \in 1..Len(q) : q[i] = x

AsgInPool(R, k) == SelectSeq(R.asg, LAMBDA a : a.pool = k)
CpuAsked(R, k) == SumSq([j \in 1..Len(AsgInPool(R, k)) |-> AsgInPool(R, k)[j].cpu])
RamAsked(R, k) == SumSq([j \in 1..Len(AsgInPool(R, k)) |-> AsgInPool(R, k)[j].ram])
FreeCpuAfter(V, R, k) == V.pools[k].acpu - CpuAsked(R, k)
FreeRamAfter(V, R, k) == V.pools[k].aram - RamAsked(R, k)
PoolHasRoom(V, R, k) == FreeCpuAfter(V, R, k) > 0 /\ FreeRamAfter(V, R, k) > 0
AssignedOps(R) == UNION {Rng(R.asg[j].ops) : j \in 1..Len(R.asg)}
PipeOfAsg(a) == a.ops[1][1]

(* ------------------------------- C08: admissible decisions ------------------------------- *)
C08_PoolsExist(cfg, R) == (\A j \in 1..Len(R.asg) : R.asg[j].pool \in 1..cfg.np) /\ (\A j \in 1..Len(R.sus) : R.sus[j].pool \in 1..cfg.np)
C08_NotOversold(cfg, V, R) == \A k \in 1..cfg.np : CpuAsked(R, k) <= V.pools[k].acpu /\ (~cfg.oc => RamAsked(R, k) <= V.pools[k].aram)
C08_WellFormed(cfg, R) == \A j \in 1..Len(R.asg) : LET a == R.asg[j] IN
                              a.ops # <<>> /\ a.cpu > 0 /\ a.ram > 0 /\ (cfg.multi \/ Len(a.ops) = 1)
C08_NoDoubleAssignment(V, R) ==
  /\ \A j \in 1..Len(R.asg) : \A m \in 1..Len(R.asg[j].ops) : OstOf(V.ost, R.asg[j].ops[m]) \in Assignable
  /\ \A j \in 1..Len(R.asg) : \A m, n \in 1..Len(R.asg[j].ops) : m # n => R.asg[j].ops[m] # R.asg[j].ops[n]
  /\ \A i, j \in 1..Len(R.asg) : i # j => Rng(R.asg[i].ops) \cap Rng(R.asg[j].ops) = {}
\* every parent is already completed, or runs earlier in the same container
C08_DependencyOrder(wl, V, R) ==
  \A j \in 1..Len(R.asg) : LET a == R.asg[j] IN \A m \in 1..Len(a.ops) :
      \A q \in ParOf(wl, a.ops[m]) : V.ost[a.ops[m][1]][q] = "completed" \/ \E n \in 1..(m - 1) : a.ops[n] = <<a.ops[m][1], q>>
C08_SuspendableOnly(cfg, V, R) ==
  /\ \A j \in 1..Len(R.sus) : R.sus[j].pool \in 1..cfg.np =>
        \E i \in 1..Len(V.pools[R.sus[j].pool].active) : V.pools[R.sus[j].pool].active[i].cid = R.sus[j].cid /\ V.pools[R.sus[j].pool].active[i].can
  /\ \A i, j \in 1..Len(R.sus) : i # j => R.sus[i].cid # R.sus[j].cid

(* ------------------------------- C17: naive ------------------------------- *)
C17_OnePerPool(cfg, R) == \A k \in 1..cfg.np : Len(AsgInPool(R, k)) <= 1
C17_WholePool(V, R) == \A j \in 1..Len(R.asg) : R.asg[j].cpu = V.pools[R.asg[j].pool].acpu /\ R.asg[j].ram = V.pools[R.asg[j].pool].aram
C17_NoSuspend(R) == R.sus = <<>>
C17_NoWorkAfterFailure(wl, V, R) == \A j \in 1..Len(R.asg) : \A o \in OpsOfPipe(wl, PipeOfAsg(R.asg[j])) : OstOf(V.ost, o) # "failed"
C17_SingleOpIsReady(cfg, wl, V, R) == ~cfg.multi => \A j \in 1..Len(R.asg) : Len(R.asg[j].ops) = 1 /\ Ready(wl, V.ost, R.asg[j].ops[1])
\* pipelines get their FIRST container in arrival order (G.started = pipelines that had one before this round)
FirstNow(G, R) == {PipeOfAsg(R.asg[j]) : j \in 1..Len(R.asg)} \ G.started
FifoFirstContainer(G, R, sameClass(_, _)) ==
  \A p \in FirstNow(G, R) : \A q \in Arrived(G) :
     (sameClass(p, q) /\ PosIn(G.arrived, q) < PosIn(G.arrived, p)) => q \in G.started \cup FirstNow(G, R)
C17_FifoFirstContainer(G, R) == FifoFirstContainer(G, R, LAMBDA p, q : TRUE)

(* ------------------------------- C18: overbook ------------------------------- *)
C18_Shape(cfg, wl, V, R) == \A j \in 1..Len(R.asg) : LET a == R.asg[j] IN
                               Len(a.ops) = 1 /\ Ready(wl, V.ost, a.ops[1]) /\ a.cpu = 1 /\ a.ram = cfg.ramcap
C18_CpuBound(cfg, V, R) == \A k \in 1..cfg.np : Len(V.pools[k].active) + Len(AsgInPool(R, k)) <= cfg.cpucap
C18_ThreeStrikes(G, R) == \A j \in 1..Len(R.asg) : G.nfail[PipeOfAsg(R.asg[j])] < 3
\* after a round triggered by an arrival or a result: no ready operator of a live pipeline waits while some pool has a free cpu
\* an operator whose container is still listed in a pool has not come back to the scheduler yet (a container killed from outside
\* between two ticks is reaped, and its failure reported, by the next tick); without such kills no listed container holds a ready operator
Held(V, o) == \E k \in 1..Len(V.pools) : \E j \in 1..Len(V.pools[k].active) : \E m \in 1..Len(V.pools[k].active[j].ops) : V.pools[k].active[j].ops[m] = o
C18_WorkConserving(cfg, wl, V, R, G, post) ==
  (R.new # <<>> \/ R.results # <<>>) =>
     ((\E k \in 1..cfg.np : FreeCpuAfter(V, R, k) >= 1) =>
        \A o \in ArrivedOps(wl, G) : G.nfail[o[1]] < 3 => (~Ready(wl, post, o) \/ Held(V, o)))

(* ------------------------------- C16: priority-pool ------------------------------- *)
PoolOf(prio) == IF prio = "B" THEN 2 ELSE 1
C16_PoolOfPriority(wl, R) == \A j \in 1..Len(R.asg) : R.asg[j].pool = PoolOf(wl[PipeOfAsg(R.asg[j])].prio) /\ R.asg[j].prio = wl[PipeOfAsg(R.asg[j])].prio
C16_NoSuspensions(R) == R.sus = <<>>
C16_RetryTogether(V, R, G) == \A j \in 1..Len(R.asg) : LET a == R.asg[j] IN
     (\E m \in 1..Len(a.ops) : OstOf(V.ost, a.ops[m]) = "failed") => a.ops = G.lastFailed[PipeOfAsg(a)]
C16_HalfPoolCutoff(R, G) == AssignedOps(R) \cap G.abandoned = {}
\* "a retry whose doubled request reaches half of the pool": 2*cpu/total >= 1/2 or 2*ram/total >= 1/2
ReachesHalf(cfg, r) == 4 * r.cpu >= cfg.cpucap \/ 4 * r.ram >= cfg.ramcap

(* ------------------------------- C12: priority / priority-pool ------------------------------- *)
Rank(prio) == IF prio = "Q" THEN 1 ELSE IF prio = "I" THEN 2 ELSE 3
\* pools an operator of priority prio may use under the policy
PoolsFor(cfg, policy, prio) == IF policy = "priority-pool" THEN {PoolOf(prio)} ELSE 1..cfg.np
NoRoomFor(cfg, policy, V, R, prio) == \A k \in PoolsFor(cfg, policy, prio) : ~PoolHasRoom(V, R, k)
WaitingPending(wl, G, post) == {o \in ArrivedOps(wl, G) : ReadyPending(wl, post, o)}
C12_WorkConserving(cfg, policy, wl, V, R, G, post) ==
  \A o \in WaitingPending(wl, G, post) : NoRoomFor(cfg, policy, V, R, wl[o[1]].prio)
C12_StrictPriority(cfg, policy, wl, V, R, G, post) ==
  \A j \in 1..Len(R.asg) : \A o \in WaitingPending(wl, G, post) :
     (Rank(wl[o[1]].prio) < Rank(R.asg[j].prio) /\ R.asg[j].pool \in PoolsFor(cfg, policy, wl[o[1]].prio))
        => NoRoomFor(cfg, policy, V, R, wl[o[1]].prio)
C12_FifoFirstContainer(wl, G, R) == FifoFirstContainer(G, R, LAMBDA p, q : wl[p].prio = wl[q].prio)
WaitingQueryOps(wl, G, post) == {o \in ArrivedOps(wl, G) : wl[o[1]].prio = "Q" /\ OstOf(post, o) \in Assignable}
C12_SuspendRules(cfg, policy, wl, V, R, G, post) ==
  /\ policy # "priority" => R.sus = <<>>
  /\ R.sus # <<>> =>
       /\ \A j \in 1..Len(R.sus) : R.sus[j].pool \in 1..cfg.np =>
             \E i \in 1..Len(V.pools[R.sus[j].pool].active) : LET c == V.pools[R.sus[j].pool].active[i] IN
                  c.cid = R.sus[j].cid /\ c.can /\ c.prio # "Q"
       /\ WaitingQueryOps(wl, G, post) # {}
       /\ Len(R.sus) <= (IF cfg.multi THEN Cardinality({o[1] : o \in WaitingQueryOps(wl, G, post)}) ELSE Cardinality(WaitingQueryOps(wl, G, post)))

(* ------------------------------- ghost history ------------------------------- *)
InitGhost == [arrived |-> <<>>, started |-> {}, nfail |-> <<>>, lastFailed |-> <<>>, abandoned |-> {}]
\* before evaluating round R: account for the arrivals and the results handed to it (V.ost = states at that moment)
GhostBefore(cfg, wl, V, R, G) ==
  LET arr == G.arrived \o R.new
      np  == Len(wl)
      failsOf(p) == Cardinality({j \in 1..Len(R.results) : R.results[j].err # "" /\ R.results[j].ops[1][1] = p})
      lastOf(p)  == LET js == {j \in 1..Len(R.results) : R.results[j].err # "" /\ R.results[j].ops[1][1] = p} IN
                    IF js = {} THEN (IF p <= Len(G.lastFailed) THEN G.lastFailed[p] ELSE <<>>)
                    ELSE LET j == CHOOSE x \in js : \A y \in js : y <= x IN
                         SelectSeq(R.results[j].ops, LAMBDA o : OstOf(V.ost, o) # "completed")
      newAb == UNION {IF R.results[j].err # "" /\ ReachesHalf(cfg, R.results[j])
                      THEN {o \in Rng(R.results[j].ops) : OstOf(V.ost, o) # "completed"} ELSE {} : j \in 1..Len(R.results)}
  IN [arrived |-> arr, started |-> G.started,
      nfail |-> [p \in 1..np |-> (IF p <= Len(G.nfail) THEN G.nfail[p] ELSE 0) + failsOf(p)],
      lastFailed |-> [p \in 1..np |-> lastOf(p)],
      abandoned |-> G.abandoned \cup newAb]
GhostAfter(R, G) == [G EXCEPT !.started = @ \cup {PipeOfAsg(R.asg[j]) : j \in 1..Len(R.asg)}]
=============================================================================
