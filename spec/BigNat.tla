------------------------------- MODULE BigNat -------------------------------
(* Naturals beyond TLC's 32-bit integers: little-endian sequences of base-10^4 limbs,
   no trailing zero limb (zero is <<>>).  Only what the specifications need: +, *, compare.
   Rationals are pairs <<num, den>> compared by cross-multiplication; no division anywhere. *)
EXTENDS Integers, Sequences

BNBase == 10000

RECURSIVE BNNorm(_)
BNNorm(a) == IF a = <<>> THEN <<>> ELSE IF a[Len(a)] = 0 THEN BNNorm(SubSeq(a, 1, Len(a) - 1)) ELSE a

RECURSIVE BNFromInt(_)
BNFromInt(n) == IF n = 0 THEN <<>> ELSE <<n % BNBase>> \o BNFromInt(n \div BNBase)

RECURSIVE BNAddC(_, _, _)
BNAddC(a, b, c) ==
  IF a = <<>> /\ b = <<>> THEN (IF c = 0 THEN <<>> ELSE <<c>>)
  ELSE LET x == IF a = <<>> THEN 0 ELSE Head(a)
           y == IF b = <<>> THEN 0 ELSE Head(b)
           t == x + y + c
       IN <<t % BNBase>> \o BNAddC(IF a = <<>> THEN <<>> ELSE Tail(a), IF b = <<>> THEN <<>> ELSE Tail(b), t \div BNBase)
BNAdd(a, b) == BNNorm(BNAddC(a, b, 0))

RECURSIVE BNMulSmallC(_, _, _)
BNMulSmallC(a, m, c) ==
  IF a = <<>> THEN (IF c = 0 THEN <<>> ELSE <<c % BNBase>> \o BNMulSmallC(<<>>, m, c \div BNBase))
  ELSE LET t == Head(a) * m + c IN <<t % BNBase>> \o BNMulSmallC(Tail(a), m, t \div BNBase)

RECURSIVE BNMul(_, _)
BNMul(a, b) ==
  IF a = <<>> \/ b = <<>> THEN <<>>
  ELSE BNNorm(BNAddC(BNMulSmallC(a, Head(b), 0), <<0>> \o BNMul(a, Tail(b)), 0))

RECURSIVE BNCmpSameLen(_, _, _)
BNCmpSameLen(a, b, i) == IF i = 0 THEN 0 ELSE IF a[i] < b[i] THEN -1 ELSE IF a[i] > b[i] THEN 1 ELSE BNCmpSameLen(a, b, i - 1)
\* -1, 0, 1
BNCmp(a, b) == IF Len(a) < Len(b) THEN -1 ELSE IF Len(a) > Len(b) THEN 1 ELSE BNCmpSameLen(a, b, Len(a))

BNLe(a, b) == BNCmp(a, b) <= 0
BNLt(a, b) == BNCmp(a, b) < 0

\* product of a sequence of ordinary naturals, as a BigNat
RECURSIVE BNProd(_)
BNProd(q) == IF q = <<>> THEN <<1>> ELSE BNMul(BNFromInt(Head(q)), BNProd(Tail(q)))
\* compare two products of ordinary naturals: -1, 0, 1
ProdCmp(p, q) == BNCmp(BNProd(p), BNProd(q))
=============================================================================
