------------------------------- MODULE TraceDag -------------------------------
(* Trace monitor for the REAL DAG iterator: each line of the log carries one DAG and the orders
   produced by `list(pipeline.values)` (twice) and by `runtime_status().get_ops(...)`.          *)
EXTENDS DagOps, Json, IOUtils
(* ---------------- trace monitor ---------------- *)
TraceLog == ndJsonDeserialize(IOEnv.TRACE_FILE)
VARIABLE l
ParOf(e) == [i \in 1..e.n |-> {e.par[i][j] : j \in 1..Len(e.par[i])}]
Flag(e, name, ok, detail) == IF ok THEN TRUE ELSE PrintT(<<"VIOL", e.tid, 0, name, detail>>) /\ TLCSet(1, TLCGet(1) + 1)
DagInit == l = 1 /\ TLCSet(1, 0) /\ TLCSet(2, 0) /\ TLCSet(3, 0) /\ TLCSet(4, 0)
DagNext == /\ l <= Len(TraceLog)
           /\ LET e == TraceLog[l] p == ParOf(e) IN
              /\ Flag(e, "C01.TopoPerm.iter", TopoPerm(p, e.n, e.iter), <<e.n, e.par, e.iter>>)
              /\ Flag(e, "C01.TopoPerm.iter2", e.iter2 = e.iter, <<e.n, e.par, e.iter, e.iter2>>)        \* iterating twice gives the same order
              /\ Flag(e, "C01.TopoPerm.status", TopoPerm(p, e.n, e.status), <<e.n, e.par, e.status>>)
              /\ Flag(e, "C01.TopoPerm.len", e.len = e.n, <<e.n, e.len>>)
              /\ Flag(e, "C01.TopoPerm.lockstep", TopoPerm(p, e.n, e.lock), <<e.n, e.par, e.lock>>)      \* two iterators advanced in lock-step
              /\ Flag(e, "C01.TopoPerm.nested", TopoPerm(p, e.n, e.nested), <<e.n, e.par, e.nested>>)    \* a full inner traversal inside every step
              /\ Flag(e, "C01.TopoPerm.lazy", TopoPerm(p, e.n, e.lazy), <<e.n, e.par, e.lazy>>)          \* the body builds the runtime status
              /\ Flag(e, "C01.TopoPerm.scratch", TopoPerm(p, e.n, e.scratch), <<e.n, e.par, e.scratch>>) \* built from one scratch list the caller reuses
              /\ (IF e.iter = ModelOrder(p, e.n) THEN TRUE ELSE TLCSet(4, TLCGet(4) + 1))
              /\ TLCSet(3, TLCGet(3) + 1) /\ TLCSet(2, l)
           /\ l' = l + 1
DagTraceSpec == DagInit /\ [][DagNext]_l
DagConsumed == /\ PrintT(<<"COUNT", "dags", TLCGet(3), "order_differs_from_model", TLCGet(4)>>)
               /\ PrintT(<<"SUMMARY", "viol", TLCGet(1), "lines", TLCGet(2), "traces", TLCGet(3)>>)
=============================================================================
