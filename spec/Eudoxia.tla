------------------------------- MODULE Eudoxia -------------------------------
(* The system specification: workload -> scheduler round -> executor tick, once per tick,
   with the UNIVERSAL scheduler: in every round ANY batch of Suspend / Assignment commands,
   admissible or not.  Everything a shipped, custom or REST policy can do is a behaviour of
   this specification, so the executor-side properties (C01-C04, C09-C11) checked here hold
   for every policy.  The concrete policies (Sched*.tla) refine Round.

   One action per phase of the code's main loop:
     Round  S phase: build the Assignment objects (moves operators to ASSIGNED, may crash)
     Exec   E phase: ExecTick (per pool E1..E6, may crash)
   A crash is terminal (the exception leaves run_one_tick).                                  *)
EXTENDS EudoxiaOps

CONSTANTS Cfg,          \* configuration record (see EudoxiaOps)
          WL,           \* workload: sequence of pipelines
          CpuChoices, RamChoices,   \* allocations the universal scheduler may request
          PoolChoices,  \* pool ids it may name (includes one out-of-range id)
          MaxTick, MaxAsg, MaxOps,
          CollapseCrash, \* TRUE: crash states collapse to one sink per reason (pure model checking)
          CrossPipe,     \* TRUE: one assignment may mix operators of different pipelines
          Admissible     \* TRUE: the scheduler only issues batches the executor accepts (long behaviours for replay/simulation)

VARIABLES s, tick, phase, sus, asg
vars == <<s, tick, phase, sus, asg>>

OpRefs(p) == {<<p, i>> : i \in 1..Len(WL[p].ops)}
SeqsNoRep(S, n) == UNION {{q \in [1..m -> S] : \A a, b \in 1..m : a # b => q[a] # q[b]} : m \in 1..n}
OpSeqs == IF CrossPipe THEN SeqsNoRep(UNION {OpRefs(p) : p \in 1..Len(WL)}, MaxOps)
          ELSE UNION {SeqsNoRep(OpRefs(p), MaxOps) : p \in 1..Len(WL)}
Assignments == {[ops |-> q, cpu |-> c, ram |-> r, pool |-> k] : q \in OpSeqs, c \in CpuChoices, r \in RamChoices, k \in PoolChoices}
AsgBatches == {<<>>} \cup {<<a>> : a \in Assignments}
                     \cup (IF MaxAsg >= 2 THEN {<<a, b>> : a \in Assignments, b \in Assignments} ELSE {})
Suspends(st) == {[cid |-> c, pool |-> k] : c \in 1..Len(st.ctr), k \in 1..Cfg.np}
SusBatches(st) == {<<>>} \cup {<<x>> : x \in Suspends(st)}

Sink(st) == [InitState(Cfg, WL) EXCEPT !.crash = st.crash]
Collapse(st) == IF st.crash = "" \/ ~CollapseCrash THEN st ELSE Sink(st)

Init == s = InitState(Cfg, WL) /\ tick = 0 /\ phase = "S" /\ sus = <<>> /\ asg = <<>>

(* ---- step-level clauses, evaluated on the un-collapsed successor inside the action ---- *)
\* C02: an assignment naming a COMPLETED (or running/assigned/suspending) operator is refused at construction
C02_NoReuseStep(ab, full) ==
  (\E j \in 1..Len(ab) : \E m \in 1..Len(ab[j].ops) : Ost(s, ab[j].ops[m]) \notin {"pending", "failed"}) => full.crash # ""
\* C03: an overselling batch is rejected as a whole: pool k keeps its free resources and gets no container
OversoldPool(st, ab, k) ==
  LET pa == SelectSeq(ab, LAMBDA x : x.pool = k) IN
  pa # <<>> /\ (SumSeq([j \in 1..Len(pa) |-> pa[j].cpu]) > st.pools[k].acpu
                \/ (~Cfg.oc /\ SumSeq([j \in 1..Len(pa) |-> pa[j].ram]) > st.pools[k].aram))
C03_RejectWholeStep(pre, post) ==
  \A k \in 1..Cfg.np :
     (~BadPool(Cfg, sus, asg) /\ (\A j \in 1..(k-1) : ~OversoldPool(pre, asg, j)) /\ OversoldPool(pre, asg, k)
      /\ post.crash \in {"over_cpu", "over_ram"})
     => /\ post.pools[k].acpu = pre.pools[k].acpu /\ post.pools[k].aram = pre.pools[k].aram
        /\ ~\E c \in (Len(pre.ctr) + 1)..Len(post.ctr) : post.ctr[c].pool = k
\* C09: a command naming a pool that does not exist is rejected, never dropped
C09_UnknownPoolStep(post) == BadPool(Cfg, sus, asg) => post.crash = "no_such_pool"
\* C10: a Suspend for anything but an active container at an operator boundary is rejected
C10_ElseRejectedStep(pre, post) ==
  (\E j \in 1..Len(sus) : LET x == sus[j] IN
       x.pool \in 1..Cfg.np /\ (x.cid \notin Range(pre.pools[x.pool].active) \/ ~pre.ctr[x.cid].can))
  => post.crash # ""

Round == /\ phase = "S" /\ s.crash = "" /\ tick < MaxTick
         /\ \E sb \in SusBatches(s), ab \in AsgBatches :
              LET full == MkAssignments(WL, s, ab) IN
              /\ (Admissible => full.crash = "" /\ ExecTick(Cfg, WL, full, sb, ab).crash = "")
              /\ Assert(C02_NoReuseStep(ab, full), "C02_NoReuseOfCompleted")
              /\ s' = Collapse(full)
              /\ sus' = IF full.crash = "" THEN sb ELSE <<>>
              /\ asg' = IF full.crash = "" THEN ab ELSE <<>>
         /\ phase' = "E" /\ UNCHANGED tick

(* ---- optional behaviours of a configuration: record fields of Cfg, absent = off ---- *)
Opt(name) == name \in DOMAIN Cfg /\ Cfg[name]
\* goOn: the caller catches a refusal of the verification phase and goes on using the executor.  The refused call is not a tick; it
\* leaves behind what the pool had done up to the refusal (the valid suspensions of the batch applied; for a wrong operator count the
\* containers of the earlier assignments of the batch started).  Modelled only where no pool has run before the refusal - one pool,
\* or a pool number that does not exist - because otherwise the results of the earlier pools are lost with the exception.
Refusals == {"over_cpu", "over_ram", "no_such_pool", "suspend_unknown", "suspend_not_boundary", "nops"}
GoesOn(post) == Opt("goOn") /\ post.crash \in Refusals /\ (Cfg.np = 1 \/ post.crash = "no_such_pool")
LeftBehind(post) == [post EXCEPT !.crash = "", !.results = <<>>]

Exec  == /\ phase = "E" /\ s.crash = ""
         /\ LET post == ExecTick(Cfg, WL, s, sus, asg) IN
              /\ Assert(C03_RejectWholeStep(s, post), "C03_RejectWhole")
              /\ Assert(C09_UnknownPoolStep(post), "C09_UnknownPoolRejected")
              /\ Assert(C10_ElseRejectedStep(s, post), "C10_ElseRejected")
              /\ s' = IF GoesOn(post) THEN LeftBehind(post) ELSE Collapse(post)
         /\ phase' = "S" /\ tick' = tick + 1
         /\ IF CollapseCrash THEN sus' = <<>> /\ asg' = <<>> ELSE UNCHANGED <<sus, asg>>

\* extKill: somebody calls Container.kill(error) on a live container between two ticks
ExtKill == /\ phase = "S" /\ s.crash = "" /\ Opt("extKill") /\ tick < MaxTick
           /\ \E k \in 1..Cfg.np : \E cid \in Range(s.pools[k].active) :
                 /\ ~s.ctr[cid].done
                 /\ s' = ExternalKill(Cfg, WL, s, cid, "evicted")
           /\ UNCHANGED <<tick, phase, sus, asg>>

Next == Round \/ Exec \/ ExtKill
Spec == Init /\ [][Next]_vars

(* =========================== invariants / action properties =========================== *)
AllOps == AllOpsOf(WL)
OK == s.crash = ""
Ctrs == 1..Len(s.ctr)

\* ---- C01 ----
C01_ParentsDone == OK => \A o \in AllOps : Ost(s, o) \in {"running", "completed"} => ParentsDone(WL, s, o)
C01_StartAfterParents ==
  [][s'.crash = "" => \A o \in AllOps :
        (Ost(s, o) \notin {"running", "completed"} /\ Ost(s', o) \in {"running", "completed"}) => ParentsDone(WL, s', o)]_vars
\* a decision that would start an operator whose parent cannot be complete by then is rejected, not executed
StuckParent(st, o) == \E q \in Range(WL[o[1]].ops[o[2]].par) : st.ost[o[1]][q] \in {"pending", "failed", "suspending"}
C01_RejectNotExecute ==
  [][(phase = "E" /\ s.crash = "" /\
       (\/ \E k \in 1..Cfg.np : \E c \in Range(s.pools[k].active) :
              /\ ~\E j \in 1..Len(sus) : sus[j].cid = c
              /\ ~s.ctr[c].done /\ s.ctr[c].seg = 0 /\ StuckParent(s, s.ctr[c].ops[s.ctr[c].idx + 1])
        \/ \E j \in 1..Len(asg) : StuckParent(s, asg[j].ops[1])))
     => ExecTick(Cfg, WL, s, sus, asg).crash # ""]_vars          \* (refused; a caller that goes on afterwards does not change that)

\* ---- C02 ----
Reach1(a) == Table[a]
Reach2(a) == UNION {Table[b] : b \in Table[a]}
Reach3(a) == UNION {Reach2(b) : b \in Table[a]}
Reach4(a) == UNION {Reach3(b) : b \in Table[a]}
C02_LegalMoves == [][s'.crash = "" => \A o \in AllOps : Ost(s', o) # Ost(s, o) =>
                        Ost(s', o) \in Reach1(Ost(s, o)) \cup Reach2(Ost(s, o)) \cup Reach3(Ost(s, o)) \cup Reach4(Ost(s, o))]_vars
C02_CompletedFinal == [][s'.crash = "" => \A o \in AllOps : Ost(s, o) = "completed" => Ost(s', o) = "completed"]_vars
C02_OneLiveContainer == OK => \A o \in AllOps :
   Cardinality({c \in AllLive(Cfg, s) : o \in UnfinishedOps(s.ctr[c])}) <= 1
\* live, unfinished operators are exactly in the states their container implies
C02_StatesMatchContainers == OK /\ phase = "S" => \A k \in 1..Cfg.np :
   /\ \A c \in {x \in Range(s.pools[k].active) : ~s.ctr[x].done} : \A j \in 1..Len(s.ctr[c].ops) :      \* (done = killed from outside, reaped by the next tick)
         Ost(s, s.ctr[c].ops[j]) = (IF j <= s.ctr[c].idx THEN "completed"
                                    ELSE IF j = s.ctr[c].idx + 1 /\ s.ctr[c].seg > 0 THEN "running" ELSE "assigned")
   /\ \A c \in Range(s.pools[k].suspending) : \A j \in (s.ctr[c].idx + 1)..Len(s.ctr[c].ops) :
         Ost(s, s.ctr[c].ops[j]) = "suspending"

\* ---- C03 ----
C03_Conservation == OK => \A k \in 1..Cfg.np :
   /\ s.pools[k].acpu + AllocCpu(s, k) = Cfg.cpucap
   /\ s.pools[k].aram + AllocRam(s, k) = Cfg.ramcap
C03_NonNegative == OK => \A k \in 1..Cfg.np : s.pools[k].acpu >= 0 /\ (~Cfg.oc => s.pools[k].aram >= 0)
C03_FreedOnce == OK => \A c \in Ctrs :
   /\ s.ctr[c].freed <= 1
   /\ (s.ctr[c].freed = 1) <=> (s.ctr[c].out # "none")
   /\ (s.ctr[c].out = "none") <=> (c \in AllLive(Cfg, s))

\* ---- C04 ---- (after the tick, i.e. at the S phase boundary)
C04_WithinAlloc == OK /\ phase = "S" => \A k \in 1..Cfg.np : \A c \in Range(s.pools[k].active) : s.ctr[c].mem <= s.ctr[c].ram
C04_PoolWithinCap == OK /\ phase = "S" => \A k \in 1..Cfg.np : Usage(s, k) <= Cfg.ramcap
C04_ReportedIsSum == OK /\ phase = "S" => \A k \in 1..Cfg.np : s.pools[k].cons = Usage(s, k)
\* every kill is justified: own demand over own allocation, or (overcommit) real total demand over capacity
C04_KillJustified == OK /\ phase = "S" => \A k \in 1..Cfg.np : LET kl == s.klog[k] IN
   /\ \A c \in kl.own : s.ctr[c].err = "OOM"
   /\ kl.victims # {} => (Cfg.oc /\ kl.U > Cfg.ramcap)
   /\ \A j \in 1..Len(s.results) : s.results[j].pool = k /\ s.results[j].err = "OOM" => s.results[j].cid \in kl.own \cup kl.victims
C04_NoPoolKillWithoutOvercommit == OK /\ ~Cfg.oc => \A k \in 1..Cfg.np : s.klog[k].victims = {}

\* ---- C05 (executor side) ---- every operator occupies at least one tick: no internal failure of the tick generator
Rejections == {"", "transition", "deps", "zero_ops", "cpu", "ram", "nops", "over_cpu", "over_ram", "no_such_pool",
               "suspend_unknown", "suspend_not_boundary"}
C05_OnlyDocumentedRejections == s.crash \in Rejections

\* ---- C09 ----
C09_Accounting == OK =>
   Len(s.ctr) = Cardinality({c \in Ctrs : s.ctr[c].out # "none"}) + Cardinality(AllLive(Cfg, s))
C09_OutcomeOnce == [][s'.crash = "" => \A c \in 1..Len(s.ctr) : s.ctr[c].out # "none" => s'.ctr[c].out = s.ctr[c].out]_vars
C09_ResultIffEnded ==   \* one result per container that ended in this tick by success/failure; none for a finished suspension
   [][(phase = "E" /\ s'.crash = "") =>
        LET ended == {c \in 1..Len(s'.ctr) : s'.ctr[c].out \in {"success", "failure"} /\ (c > Len(s.ctr) \/ s.ctr[c].out = "none")}
        IN /\ {s'.results[j].cid : j \in 1..Len(s'.results)} = ended
           /\ Len(s'.results) = Cardinality(ended)
           /\ \A j \in 1..Len(s'.results) : (s'.results[j].err = "") <=> (s'.ctr[s'.results[j].cid].out = "success")]_vars
C09_ResultShape ==      \* at the moment of the result: success <=> all completed; failure = completed prefix + failed suffix
   OK /\ phase = "S" => \A j \in 1..Len(s.results) : LET c == s.ctr[s.results[j].cid] IN
        IF s.results[j].err = ""
        THEN c.idx = Len(c.ops) /\ \A m \in 1..Len(c.ops) : Ost(s, c.ops[m]) = "completed"
        ELSE /\ c.idx < Len(c.ops)
             /\ \A m \in 1..c.idx : Ost(s, c.ops[m]) = "completed"
             \* (operators failed by a kill from outside may have been handed to a scheduler again before the old container is reaped)
             /\ s.results[j].err = "OOM" => \A m \in (c.idx + 1)..Len(c.ops) : Ost(s, c.ops[m]) = "failed"
\* (a batch refused for overselling, for an unknown pool or for a bad Suspend was not accepted: it creates no container at all)
C09_OneContainerPerAssignment ==
   [][(phase = "E" /\ s'.crash = "") =>
        LET why == ExecTick(Cfg, WL, s, sus, asg).crash IN
        /\ why = "" => Len(s'.ctr) = Len(s.ctr) + Len(asg)
        /\ why \in Refusals \ {"nops"} => Len(s'.ctr) = Len(s.ctr)]_vars

\* ---- C10 ----
C10_CanIffBoundary == OK => \A k \in 1..Cfg.np : \A c \in Range(s.pools[k].active) :
   s.ctr[c].can <=> (s.ctr[c].idx >= 1 /\ s.ctr[c].idx < Len(s.ctr[c].ops) /\ s.ctr[c].seg = 0 /\ ~s.ctr[c].done)
C10_OnlyAtBoundary ==   \* a container enters `suspending` only from active, and only if it was suspendable
   [][s'.crash = "" => \A k \in 1..Cfg.np : \A c \in Range(s'.pools[k].suspending) \cup Range(s'.pools[k].suspended) :
        (c \notin Range(s.pools[k].suspending) \cup Range(s.pools[k].suspended))
          => (c \in Range(s.pools[k].active) /\ s.ctr[c].can /\ [cid |-> c, pool |-> k] \in Range(sus))]_vars
C10_SuspLeftPositive == OK => \A k \in 1..Cfg.np : \A c \in Range(s.pools[k].suspending) : s.ctr[c].sleft >= 1
C10_Duration == OK => \A c \in Ctrs : s.ctr[c].out = "suspended" =>
   s.ctr[c].sdone = Max(1, (s.ctr[c].ram * Cfg.suspNum) \div Cfg.suspDen)
C10_NoProgressKeepsAllocation ==
   [][s'.crash = "" => \A k \in 1..Cfg.np : \A c \in Range(s.pools[k].suspending) :
        /\ s'.ctr[c].idx = s.ctr[c].idx /\ s'.ctr[c].ticks = s.ctr[c].ticks
        /\ s'.ctr[c].cpu = s.ctr[c].cpu /\ s'.ctr[c].ram = s.ctr[c].ram]_vars
C10_WorkIntact ==       \* in the tick a suspension finishes: finished operators stay completed, the rest are pending
   [][s'.crash = "" => \A c \in 1..Len(s.ctr) : (s.ctr[c].out = "none" /\ s'.ctr[c].out = "suspended") =>
        /\ \A m \in 1..s.ctr[c].idx : Ost(s', s.ctr[c].ops[m]) = "completed"
        /\ \A m \in (s.ctr[c].idx + 1)..Len(s.ctr[c].ops) : Ost(s', s.ctr[c].ops[m]) = "pending"]_vars

\* ---- C11 ---- declaratively over the kill log of the last tick (ties admit any order)
KScoreGt(x, y) == ProdCmp(<<x.mem, x.mem, y.ram>>, <<y.mem, y.mem, x.ram>>) = 1
KMem(kl, V) == SumSeq([j \in 1..Len(kl.cands) |-> IF kl.cands[j].cid \in V THEN kl.cands[j].mem ELSE 0])
KCand(kl, c) == kl.cands[CHOOSE j \in 1..Len(kl.cands) : kl.cands[j].cid = c]
C11_VictimsAreCandidates == OK => \A k \in 1..Cfg.np : s.klog[k].victims \subseteq {s.klog[k].cands[j].cid : j \in 1..Len(s.klog[k].cands)}
C11_NoKillIfFits == OK => \A k \in 1..Cfg.np : s.klog[k].U <= Cfg.ramcap => s.klog[k].victims = {}
C11_HighestFirst == OK => \A k \in 1..Cfg.np : LET kl == s.klog[k] IN
   \A v \in kl.victims : \A j \in 1..Len(kl.cands) : kl.cands[j].cid \notin kl.victims => ~KScoreGt(kl.cands[j], KCand(kl, v))
C11_Needed == OK => \A k \in 1..Cfg.np : LET kl == s.klog[k] IN
   kl.victims # {} => \E v \in kl.victims :
       /\ \A w \in kl.victims : ~KScoreGt(KCand(kl, v), KCand(kl, w))        \* v is a lowest-scoring victim
       /\ kl.U - KMem(kl, kl.victims \ {v}) > Cfg.ramcap                     \* and it was still needed
C11_StopsWhenFits == OK => \A k \in 1..Cfg.np : LET kl == s.klog[k] IN
   kl.U > Cfg.ramcap => (kl.U - KMem(kl, kl.victims) <= Cfg.ramcap \/ kl.victims = {kl.cands[j].cid : j \in 1..Len(kl.cands)})

TickBound == tick <= MaxTick
=============================================================================
