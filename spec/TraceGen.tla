------------------------------- MODULE TraceGen -------------------------------
(* C15, binding side: one line = one run of the real WorkloadGenerator, tick by tick, with its random source
   replaced by a delegating proxy that logs every call (method, arguments, result).  The distributional
   sentences of the property are decided deterministically through the ARGUMENTS of the draws (the class draw
   uses the configured probabilities, the operator-count draw is centred on num_operators, the gap draw on
   waiting_seconds_mean * tps, the prototype draw of later operators on cpu_io_ratio) and the structural
   sentences through the RESULTS (what was generated is what the draws dictate).                          *)
EXTENDS GenOps, BigNat, Json, IOUtils
TraceLog == ndJsonDeserialize(IOEnv.TRACE_FILE)
VARIABLES l, run, prev, ids
vars == <<l, run, prev, ids>>
RViol == 1 RLines == 2 RTraces == 3 REvents == 10 RPipes == 11 RQuery == 12 RLater == 13 RZeroProb == 14 RSubTick == 15 RNegDraw == 16 RUndecided == 17
Regs == {1, 2, 3} \cup 10..17
RPairs == 18
RIdsOnly == 19
Bump(r, n) == TLCSet(r, TLCGet(r) + n)
Flag(e, name, ok, detail) == IF ok THEN TRUE ELSE PrintT(<<"VIOL", e.tid, 0, name, detail>>) /\ Bump(RViol, 1)
RECURSIVE SumSeq(_)
SumSeq(q) == IF q = <<>> THEN 0 ELSE Head(q) + SumSeq(Tail(q))

\* e.events[j] = [t, pipes |-> << [id, prio, ops |-> << [cpu, law, read, mem, nseg, par] >>] >>, calls |-> << [m, a, r] >>]
\* a call: m = "choice" | "normal";  a = arguments (choice: [values, probabilities in millionths]; normal: [loc, scale] in millionths)
\*         r = result: choice -> the value; normal -> [trunc, floor(1000*x)]
\* the calls one pipeline consumes, given where they start in the event's call list
PipeCalls(p) == IF p.prio = "Q" THEN 1 ELSE 2 + (Len(p.ops) - 1)

CheckEvent(e, ev) ==
  LET n == Len(ev.pipes)
      starts == [k \in 1..n |-> 1 + SumSeq([j \in 1..(k - 1) |-> PipeCalls(ev.pipes[j])])]
      ncalls == SumSeq([j \in 1..n |-> PipeCalls(ev.pipes[j])]) + 1           \* + the gap draw
      decidable == Len(ev.calls) = ncalls
  IN
  /\ Bump(REvents, 1) /\ Bump(RPipes, n)
  /\ Flag(e, "C15.Count", n = e.num_pipelines, <<"tick", ev.t, n, e.num_pipelines>>)
  /\ \A k \in 1..n : LET p == ev.pipes[k] IN
       /\ Bump(RQuery, IF p.prio = "Q" THEN 1 ELSE 0) /\ Bump(RLater, IF p.prio = "Q" THEN 0 ELSE Len(p.ops) - 1)
       /\ Flag(e, "C15.OneSegmentEach", \A i \in 1..Len(p.ops) : p.ops[i].nseg = 1, <<"tick", ev.t, p.id>>)
       /\ Flag(e, "C15.AtLeastOneOperator", Len(p.ops) >= 1, <<"tick", ev.t, p.id, p.prio>>)          \* (and the clauses below stay defined for an empty pipeline)
       /\ Flag(e, "C15.QueryShape", p.prio = "Q" => Len(p.ops) = 1 /\ <<p.ops[1].cpu, p.ops[1].law, p.ops[1].read>> = QueryProto /\ p.ops[1].par = <<>>, <<"tick", ev.t, p>>)
       /\ Flag(e, "C15.ChainShape", p.prio # "Q" => Len(p.ops) >= 1 /\ \A i \in 1..Len(p.ops) : p.ops[i].par = (IF i = 1 THEN <<>> ELSE <<i - 1>>), <<"tick", ev.t, p>>)
       /\ Flag(e, "C15.FirstIsIoHeavy", (p.prio # "Q" /\ Len(p.ops) >= 1) => <<p.ops[1].cpu, p.ops[1].law, p.ops[1].read>> = IoHeavy, <<"tick", ev.t, p.id>>)
       /\ Flag(e, "C15.NoFixedMemory", \A i \in 1..Len(p.ops) : p.ops[i].mem = -1, <<"tick", ev.t, p.id>>)
       /\ Flag(e, "C15.ZeroProbNever", e.probs[IF p.prio = "I" THEN 1 ELSE IF p.prio = "Q" THEN 2 ELSE 3] > 0, <<"tick", ev.t, p.prio, e.probs>>)
  /\ (IF decidable THEN TRUE ELSE Bump(RUndecided, 1))
  /\ decidable =>
       /\ \A k \in 1..n : LET p == ev.pipes[k] c == ev.calls[starts[k]] IN
            \* the class draw: over the three classes with the configured probabilities (normalised), and the pipeline gets the drawn class
            /\ Flag(e, "C15.ClassDraw", c.m = "choice" /\ c.a[1] = <<2, 1, 3>> /\ \A j \in 1..3 : c.a[2][j] - e.probs_norm[j] \in -2..2, <<"tick", ev.t, c, e.probs_norm>>)
            /\ Flag(e, "C15.PriorityFromDraw", c.m = "choice" => p.prio = PrioOfValue(c.r), <<"tick", ev.t, p.prio, c.r>>)
            /\ (p.prio # "Q" =>
                 LET d == ev.calls[starts[k] + 1] IN
                 \* the operator-count draw is centred on num_operators (stdev a quarter of it) and the chain has max(1, trunc(draw)) operators
                 /\ Flag(e, "C15.OpCountDraw", d.m = "normal" /\ d.a[1] = e.num_operators * 1000000 /\ d.a[2] = e.num_operators * 250000, <<"tick", ev.t, d, e.num_operators>>)
                 /\ Flag(e, "C15.OpCountFromDraw", d.m = "normal" => Len(p.ops) = NumOps(d.r[1]), <<"tick", ev.t, Len(p.ops), d.r>>)
                 /\ Bump(RNegDraw, IF d.m = "normal" /\ d.r[1] < 1 THEN 1 ELSE 0)
                 /\ \A i \in 2..Len(p.ops) : LET v == ev.calls[starts[k] + i] IN
                      \* later operators: drawn around cpu_io_ratio, prototype by the documented thresholds
                      /\ Flag(e, "C15.RatioDraw", v.m = "normal" /\ v.a[1] = e.ratio /\ v.a[2] = 1000000, <<"tick", ev.t, "op", i, v, e.ratio>>)
                      /\ Flag(e, "C15.LaterFromDraw", v.m = "normal" => <<p.ops[i].cpu, p.ops[i].law, p.ops[i].read>> = ProtoOfMilli(v.r[2]), <<"tick", ev.t, "op", i, p.ops[i], v.r>>))
       \* the gap draw: centred on waiting_seconds_mean * tps ticks
       /\ LET gd == ev.calls[ncalls] IN
            Flag(e, "C15.GapDraw", gd.m = "normal" /\ gd.a[1] = e.mean_ticks * 1000000 /\ gd.a[2] = e.mean_ticks * 250000, <<"tick", ev.t, gd, e.mean_ticks>>)

\* streaming: "hdr" (parameters of the run), "ev" (one arrival event), "end"
NoPrev == [t |-> -1, draw |-> 0, has |-> FALSE]
CheckHdr(e) == /\ Bump(RTraces, 1) /\ Bump(RSubTick, IF e.mean_ticks = 0 THEN 1 ELSE 0)
               /\ Bump(RZeroProb, Cardinality({j \in 1..3 : e.probs[j] = 0}))
               /\ run' = e /\ prev' = NoPrev /\ ids' = {}
CheckEv(ev) ==
  LET e == run gd == ev.calls[Len(ev.calls)] IN
  /\ (IF ~prev.has THEN Flag(e, "C15.FirstEventAtZero", ev.t = 0, ev.t)
      ELSE /\ Flag(e, "C15.AtLeastOneTickApart", ev.t - prev.t >= 1, <<prev.t, ev.t>>)
           \* events exactly wait+1 ticks apart, wait = the previous event's gap draw if positive, else the mean
           /\ Flag(e, "C15.EventSpacing", prev.decided => ev.t - prev.t = WaitOf(prev.draw, e.mean_ticks) + 1,
                   <<"event at", prev.t, "next at", ev.t, "draw", prev.draw, "mean", e.mean_ticks>>))
  /\ CheckEvent(e, ev)
  /\ Flag(e, "C15.FreshIds", \A k \in 1..Len(ev.pipes) : ev.pipes[k].id \notin ids /\ \A k2 \in 1..Len(ev.pipes) : k # k2 => ev.pipes[k].id # ev.pipes[k2].id, <<"tick", ev.t>>)
  /\ ids' = ids \cup {ev.pipes[k].id : k \in 1..Len(ev.pipes)}
  /\ prev' = [t |-> ev.t, draw |-> IF ev.calls # <<>> /\ gd.m = "normal" THEN gd.r[1] ELSE 0, has |-> TRUE, decided |-> ev.calls # <<>> /\ gd.m = "normal"]
  /\ UNCHANGED run
CheckEnd(e) ==
  /\ Flag(run, "C15.FirstEventAtZero", e.nticks >= 1 => prev.has, "no event at all")
  \* no event is missing at the end of the run either
  /\ Flag(run, "C15.NoMissingEvent", (prev.has /\ prev.decided) => prev.t + WaitOf(prev.draw, run.mean_ticks) + 1 >= e.nticks, <<prev, e.nticks>>)
  \* calls happen only inside events
  /\ Flag(run, "C15.NoDrawOutsideEvents", e.stray_calls = 0, e.stray_calls)
  /\ UNCHANGED <<run, prev, ids>>

\* "raising cpu_io_ratio shifts the prototype mix of the later operators towards CPU-heavy ones": the same parameters and seed
\* run with ratio 0 and with ratio 1; over at least 100 later operators each, the mean CPU time must grow and the mean read size shrink
\* (each draw moves by two prototype classes, so the effect is far beyond chance; implementation-independent)
CheckPair(e) ==
  /\ Bump(RTraces, 1) /\ UNCHANGED <<run, prev, ids>>
  /\ (e.lo.n >= 100 /\ e.hi.n >= 100) =>
       /\ Bump(RPairs, 1)
       /\ Flag(e, "C15.RatioShiftsMix.cpu", ProdCmp(<<e.hi.cpu, e.lo.n>>, <<e.lo.cpu, e.hi.n>>) = 1, <<"ratio 0", e.lo, "ratio 1", e.hi>>)
       /\ Flag(e, "C15.RatioShiftsMix.read", ProdCmp(<<e.hi.read, e.lo.n>>, <<e.lo.read, e.hi.n>>) = -1, <<"ratio 0", e.lo, "ratio 1", e.hi>>)
\* a long run reported by identifiers only ("idhdr" then "ids" lines of a few thousand identifiers each, in emission order):
\* freshness over MANY pipelines of one generator instance (tens of thousands) without the per-pipeline draw clauses
CheckIdHdr(e) == Bump(RTraces, 1) /\ run' = e /\ prev' = NoPrev /\ ids' = {}
CheckIds(e) ==
  /\ Flag(run, "C15.FreshIds", (\A k \in 1..Len(e.ids) : e.ids[k] \notin ids) /\ Cardinality({e.ids[k] : k \in 1..Len(e.ids)}) = Len(e.ids),
          <<"pipelines", e.from, "to", e.from + Len(e.ids) - 1, "repeated", {e.ids[k] : k \in {j \in 1..Len(e.ids) : e.ids[j] \in ids \/ \E j2 \in 1..(j - 1) : e.ids[j2] = e.ids[j]}}>>)
  /\ Bump(RIdsOnly, Len(e.ids))
  /\ ids' = ids \cup {e.ids[k] : k \in 1..Len(e.ids)} /\ UNCHANGED <<run, prev>>
Init == l = 1 /\ run = [tid |-> -1] /\ prev = NoPrev /\ ids = {} /\ \A r \in Regs \cup {RPairs, RIdsOnly} : TLCSet(r, 0)
Next == /\ l <= Len(TraceLog)
        /\ LET e == TraceLog[l] IN
           CASE e.kind = "pair" -> CheckPair(e) [] e.kind = "hdr" -> CheckHdr(e) [] e.kind = "ev" -> CheckEv(e) [] e.kind = "end" -> CheckEnd(e)
                [] e.kind = "idhdr" -> CheckIdHdr(e) [] e.kind = "ids" -> CheckIds(e)
        /\ TLCSet(RLines, l) /\ l' = l + 1
Spec == Init /\ [][Next]_vars
\* the monitor is deterministic: the position in the log identifies the state (TLC then fingerprints one integer, not the set of ids seen)
Position == l
Consumed == /\ PrintT(<<"COUNT", "runs", TLCGet(RTraces), "events", TLCGet(REvents), "pipelines", TLCGet(RPipes), "query_pipelines", TLCGet(RQuery), "later_operators", TLCGet(RLater),
                        "zero_prob_classes", TLCGet(RZeroProb), "runs_subtick_mean", TLCGet(RSubTick), "opcount_draws_below_one", TLCGet(RNegDraw), "events_undecidable_call_pattern", TLCGet(RUndecided), "ratio_pairs", TLCGet(RPairs), "pipelines_identity_only", TLCGet(RIdsOnly)>>)
            /\ PrintT(<<"SUMMARY", "viol", TLCGet(RViol), "lines", TLCGet(RLines), "traces", TLCGet(RTraces)>>)
=============================================================================
