------------------------------- MODULE Generator -------------------------------
(* C15, model side: the arrival clock of the generator as a state machine with nondeterministic draws.
   since = ticks since the last event, wait = current gap.  An event happens exactly when since = wait. *)
EXTENDS GenOps
CONSTANTS Mean, Draws, MaxTick
VARIABLES tick, since, wait, events
vars == <<tick, since, wait, events>>
Init == tick = 0 /\ since = 0 /\ wait = 0 /\ events = <<>>
Step == /\ tick < MaxTick
        /\ IF since = wait
           THEN \E d \in Draws : wait' = WaitOf(d, Mean) /\ since' = 0 /\ events' = Append(events, tick)
           ELSE since' = since + 1 /\ UNCHANGED <<wait, events>>
        /\ tick' = tick + 1
Spec == Init /\ [][Step]_vars
C15_FirstEventAtZero == tick >= 1 => (Len(events) >= 1 /\ events[1] = 0)
C15_AtLeastOneTickApart == \A i \in 1..(Len(events) - 1) : events[i + 1] - events[i] >= 1
\* with a positive mean the gap is wait+1 ticks, wait >= 1 whenever the mean is >= 1: at least two ticks apart then
C15_GapIsWaitPlusOne == \A i \in 1..(Len(events) - 1) : (events[i + 1] - events[i] - 1) \in {WaitOf(d, Mean) : d \in Draws}
C15_ProtoMonotone == ProtoMonotone
=============================================================================
