SPECIFICATION Spec
CONSTANTS
  D = 12
  MaxK = 14
  MaxTps = 6
  MaxRows = 3
  Deltas = {0, 1, 5}
INVARIANT C20_SnapNeverUp
INVARIANT C20_SnapLessThanOneTick
INVARIANT C20_SnapOnGridUnchanged
INVARIANT C20_SnapIdempotent
INVARIANT C20_SnapKeepsOrder
INVARIANT C20_JitterBounds
INVARIANT C20_JitterAscending
INVARIANT C20_JitterKeepsPipelines
INVARIANT C20_JitterStable
