-------------------------------- MODULE Sched --------------------------------
(* The shipped scheduling policies transcribed (one operator per policy, private queues as the
   record `priv`), composed with the executor operators of EudoxiaOps, over ALL small workloads
   chosen in Init (DAG shapes x profiles x priorities x arrival ticks).  The contracts of
   SchedContracts.tla are invariants; `crash = ""` is C08 (the policy never makes the executor
   raise and runs to the last tick).

   A deterministic policy costs about two states per tick and workload, so the number of
   workloads - not the depth - is what the configuration bounds.                               *)
EXTENDS EudoxiaOps, SchedContracts, DagOps

CONSTANTS Policy,        \* "naive" | "overbook" | "priority-pool" | "priority"
          Cfg, Shapes, Prios, ArrTicks, NPipes, MaxTick
VARIABLES s, tick, phase, priv, cmds, g, last, wl, arr, sim
vars == <<s, tick, phase, priv, cmds, g, last, wl, arr, sim>>

NP == NPipes
Successful(st, p) == \A i \in 1..Len(wl[p].ops) : st.ost[p][i] = "completed"
HasFailed(st, p)  == \E i \in 1..Len(wl[p].ops) : st.ost[p][i] = "failed"
\* operators of pipeline p in the order of the runtime status (= DAG iterator order)
ParSets(p) == [i \in 1..Len(wl[p].ops) |-> Range(wl[p].ops[i].par)]
IterOrder(p) == ModelOrder(ParSets(p), Len(wl[p].ops))
GetOps(st, p, needParents) ==
  LET ord == IterOrder(p)
      ok(i) == st.ost[p][i] \in {"pending", "failed"} /\ (needParents => ParentsDone(wl, st, <<p, i>>))
      sel == SelectSeq(ord, ok)
  IN [j \in 1..Len(sel) |-> <<p, sel[j]>>]

(* ------------------------------------ naive ------------------------------------ *)
NaiveInit == [queue |-> <<>>]
RECURSIVE NaivePop(_, _, _, _)
NaivePop(st, q, rq, k) ==      \* inner while-loop for one pool: [st, q, rq, asg]
  IF q = <<>> THEN [st |-> st, q |-> q, rq |-> rq, asg |-> <<>>]
  ELSE LET p == Head(q) IN
       IF Successful(st, p) \/ HasFailed(st, p) THEN NaivePop(st, Tail(q), rq, k)
       ELSE LET ops == IF Cfg.multi THEN GetOps(st, p, FALSE)
                       ELSE (IF GetOps(st, p, TRUE) = <<>> THEN <<>> ELSE <<GetOps(st, p, TRUE)[1]>>) IN
            IF ops = <<>> THEN NaivePop(st, Tail(q), Append(rq, p), k)
            ELSE LET a == [ops |-> ops, cpu |-> st.pools[k].acpu, ram |-> st.pools[k].aram, pool |-> k, prio |-> wl[p].prio] IN
                 [st |-> MkAssignment(wl, st, a), q |-> Tail(q), rq |-> Append(rq, p), asg |-> <<a>>]
RECURSIVE NaivePools(_, _, _, _, _)
NaivePools(st, q, rq, k, acc) ==
  IF k > Cfg.np THEN [st |-> st, q |-> q \o rq, asg |-> acc]
  ELSE IF st.pools[k].acpu <= 0 \/ st.pools[k].aram <= 0 THEN NaivePools(st, q, rq, k + 1, acc)
  ELSE LET r == NaivePop(st, q, rq, k) IN NaivePools(r.st, r.q, r.rq, k + 1, acc \o r.asg)
NaiveRound(st, pv, new, results) ==
  IF new = <<>> /\ results = <<>> THEN [st |-> st, priv |-> pv, sus |-> <<>>, asg |-> <<>>]
  ELSE LET r == NaivePools(st, pv.queue \o new, <<>>, 1, <<>>) IN
       [st |-> r.st, priv |-> [queue |-> r.q], sus |-> <<>>, asg |-> r.asg]

(* ------------------------------------ overbook ------------------------------------ *)
OverbookInit == [opq |-> <<>>, nfail |-> [p \in 1..NP |-> 0]]
RECURSIVE Dedup(_, _)
Dedup(q, seen) == IF q = <<>> THEN <<>> ELSE IF Head(q) \in seen THEN Dedup(Tail(q), seen) ELSE <<Head(q)>> \o Dedup(Tail(q), seen \cup {Head(q)})
RECURSIVE ConcatAll(_)
ConcatAll(qq) == IF qq = <<>> THEN <<>> ELSE Head(qq) \o ConcatAll(Tail(qq))
FirstPoolWithCpu(av) == IF \E k \in 1..Cfg.np : av[k] >= 1 THEN CHOOSE k \in 1..Cfg.np : av[k] >= 1 /\ \A j \in 1..(k-1) : av[j] < 1 ELSE 0
RECURSIVE ObAssign(_, _, _, _, _)
ObAssign(st, q, nfail, av, acc) ==     \* make_assignments: [st, opq, asg]
  IF q = <<>> THEN [st |-> st, opq |-> <<>>, asg |-> acc]
  ELSE LET o == Head(q) IN
       IF nfail[o[1]] >= 3 THEN ObAssign(st, Tail(q), nfail, av, acc)
       ELSE IF Ost(st, o) \notin {"pending", "failed"} THEN [st |-> CrashWith(st, "overbook_assert"), opq |-> q, asg |-> acc]
       ELSE LET k == FirstPoolWithCpu(av) IN
            IF k = 0 THEN [st |-> st, opq |-> q, asg |-> acc]
            ELSE LET a == [ops |-> <<o>>, cpu |-> 1, ram |-> Cfg.ramcap, pool |-> k, prio |-> wl[o[1]].prio] IN
                 ObAssign(MkAssignment(wl, st, a), Tail(q), nfail, [av EXCEPT ![k] = @ - 1], Append(acc, a))
OverbookRound(st, pv, new, results) ==
  IF new = <<>> /\ results = <<>> THEN [st |-> st, priv |-> pv, sus |-> <<>>, asg |-> <<>>]
  ELSE LET resPipes == [j \in 1..Len(results) |-> st.ctr[results[j].cid].ops[1][1]]
           toProcess == Dedup(new \o resPipes, {})
           nf == [p \in 1..NP |-> pv.nfail[p] + Cardinality({j \in 1..Len(results) : results[j].err # "" /\ resPipes[j] = p})]
           ready == ConcatAll([j \in 1..Len(toProcess) |-> GetOps(st, toProcess[j], TRUE)])
           q == Dedup(pv.opq \o ready, {})
           av == [k \in 1..Cfg.np |-> st.pools[k].acpu]
           r == ObAssign(st, q, nf, av, <<>>)
       IN [st |-> r.st, priv |-> [opq |-> r.opq, nfail |-> nf], sus |-> <<>>, asg |-> r.asg]

(* ------------------------------------ dispatch ------------------------------------ *)
PolicyInit == IF Policy = "naive" THEN NaiveInit ELSE OverbookInit
PolicyRound(st, pv, new, results) ==
  IF Policy = "naive" THEN NaiveRound(st, pv, new, results) ELSE OverbookRound(st, pv, new, results)

ViewOf(st) == [ost |-> st.ost,
               pools |-> [k \in 1..Cfg.np |-> [acpu |-> st.pools[k].acpu, aram |-> st.pools[k].aram,
                            active |-> [j \in 1..Len(st.pools[k].active) |->
                                          LET c == st.ctr[st.pools[k].active[j]] IN
                                          [cid |-> st.pools[k].active[j], prio |-> wl[c.ops[1][1]].prio, can |-> c.can]]]]]
ResultsOf(st) == [j \in 1..Len(st.results) |->
                    LET c == st.ctr[st.results[j].cid] IN
                    [cid |-> st.results[j].cid, err |-> st.results[j].err, pool |-> st.results[j].pool, ops |-> c.ops, cpu |-> c.cpu, ram |-> c.ram]]
NoLast == [V |-> [ost |-> <<>>, pools |-> <<>>], R |-> [new |-> <<>>, results |-> <<>>, sus |-> <<>>, asg |-> <<>>], post |-> <<>>, G |-> InitGhost, valid |-> FALSE]

Init == /\ wl \in [1..NP -> {[prio |-> pr, arr |-> 0, ops |-> sh] : pr \in Prios, sh \in Shapes}]
        /\ arr \in [1..NP -> ArrTicks]
        /\ s = InitState(Cfg, wl) /\ tick = 0 /\ phase = "S" /\ priv = PolicyInit
        /\ cmds = [sus |-> <<>>, asg |-> <<>>] /\ g = InitGhost /\ last = NoLast
        /\ sim = [created |-> 0, nasg |-> 0, nsus |-> 0, nfail |-> 0, nsucc |-> 0,
                  done |-> [p \in 1..NP |-> -1], outstanding |-> {}, lastOpTick |-> [p \in 1..NP |-> -1]]

Round == /\ phase = "S" /\ s.crash = "" /\ tick < MaxTick
         /\ LET new == SelectSeq([p \in 1..NP |-> p], LAMBDA p : arr[p] = tick)
                res == ResultsOf(s)
                r   == PolicyRound(s, priv, new, res)
                V   == ViewOf(s)
                R   == [new |-> new, results |-> res, sus |-> r.sus, asg |-> r.asg]
                G   == GhostBefore(Cfg, wl, V, R, g)
            IN /\ s' = r.st /\ priv' = r.priv /\ cmds' = [sus |-> r.sus, asg |-> r.asg]
               /\ last' = [V |-> V, R |-> R, post |-> r.st.ost, G |-> G, valid |-> TRUE]
               /\ g' = GhostAfter(R, G)
               \* run_simulator's bookkeeping of the W and S phases
               /\ sim' = [sim EXCEPT !.created = @ + Len(new), !.outstanding = @ \cup Range(new),
                                     !.nasg = @ + Len(r.asg), !.nsus = @ + Len(r.sus)]
         /\ phase' = "E" /\ UNCHANGED <<tick, wl, arr>>
Exec  == /\ phase = "E" /\ s.crash = ""
         /\ LET post == ExecTick(Cfg, wl, s, cmds.sus, cmds.asg)
                \* the main loop sweeps the outstanding pipelines only in ticks that produced a result
                fin == IF post.crash = "" /\ post.results # <<>> THEN {p \in sim.outstanding : Successful(post, p)} ELSE {}
            IN /\ s' = post
               /\ sim' = [sim EXCEPT !.nfail = @ + Cardinality({j \in 1..Len(post.results) : post.results[j].err # ""}),
                                     !.nsucc = @ + Cardinality({j \in 1..Len(post.results) : post.results[j].err = ""}),
                                     !.done = [p \in 1..NP |-> IF p \in fin THEN tick ELSE sim.done[p]],
                                     !.outstanding = @ \ fin,
                                     !.lastOpTick = [p \in 1..NP |-> IF post.crash = "" /\ Successful(post, p) /\ ~Successful(s, p) THEN tick ELSE sim.lastOpTick[p]]]
         /\ phase' = "S" /\ tick' = tick + 1 /\ cmds' = [sus |-> <<>>, asg |-> <<>>] /\ last' = [last EXCEPT !.valid = FALSE]
         /\ UNCHANGED <<priv, g, wl, arr>>
Next == Round \/ Exec
Spec == Init /\ [][Next]_vars

(* ------------------------------------ properties ------------------------------------ *)
C08_NoCrash == s.crash = ""
C08_Admissible == last.valid => /\ C08_PoolsExist(Cfg, last.R) /\ C08_NotOversold(Cfg, last.V, last.R) /\ C08_WellFormed(Cfg, last.R)
                                /\ C08_NoDoubleAssignment(last.V, last.R) /\ C08_DependencyOrder(wl, last.V, last.R)
                                /\ C08_SuspendableOnly(Cfg, last.V, last.R)
C01_ParentsDone == s.crash = "" => \A o \in AllOpsOf(wl) : Ost(s, o) \in {"running", "completed"} => ParentsDone(wl, s, o)
C03_Conservation == s.crash = "" => \A k \in 1..Cfg.np : s.pools[k].acpu + AllocCpu(s, k) = Cfg.cpucap /\ s.pools[k].aram + AllocRam(s, k) = Cfg.ramcap

\* ---- C06: completion bookkeeping of the main loop ----
C06_NotWhileUnfinished == s.crash = "" => \A p \in 1..NP : sim.done[p] >= 0 => Successful(s, p)
\* counted in the tick the last operator completes - although the loop only looks in ticks with a result
C06_FinishTick == (s.crash = "" /\ phase = "S") => \A p \in 1..NP : (Successful(s, p) => sim.done[p] = sim.lastOpTick[p]) /\ (sim.done[p] >= 0 => sim.done[p] >= arr[p])
C06_CompleteOnce == [][\A p \in 1..NP : sim.done[p] >= 0 => sim'.done[p] = sim.done[p]]_vars
C06_Counters == s.crash = "" =>
   /\ sim.nasg = Len(s.ctr) + Len(cmds.asg)
   /\ sim.nfail = Cardinality({c \in 1..Len(s.ctr) : s.ctr[c].out = "failure"})
   /\ sim.nsucc = Cardinality({c \in 1..Len(s.ctr) : s.ctr[c].out = "success"})
   /\ sim.nsucc = SumSeq([k \in 1..Cfg.np |-> s.pools[k].ncomp])
   /\ sim.created = Cardinality({p \in 1..NP : arr[p] < tick \/ (arr[p] = tick /\ phase = "E")})
\* an uncontended pipeline (alone, multi-operator mode or chain, enough memory) needs exactly the ticks of its operators
Inv17 == (Policy = "naive" /\ last.valid) =>
   /\ C17_OnePerPool(Cfg, last.R) /\ C17_WholePool(last.V, last.R) /\ C17_NoSuspend(last.R)
   /\ C17_NoWorkAfterFailure(wl, last.V, last.R) /\ C17_SingleOpIsReady(Cfg, wl, last.V, last.R)
   /\ C17_FifoFirstContainer(last.G, last.R)
Inv18 == (Policy = "overbook" /\ last.valid) =>
   /\ C18_Shape(Cfg, wl, last.V, last.R) /\ C18_CpuBound(Cfg, last.V, last.R) /\ last.R.sus = <<>>
   /\ C18_ThreeStrikes(last.G, last.R) /\ C18_WorkConserving(Cfg, wl, last.V, last.R, last.G, last.post)
=============================================================================
