-------------------------------- MODULE Sched --------------------------------
(* The shipped scheduling policies transcribed (one operator per policy, private queues as the
   record `priv`), composed with the executor operators of EudoxiaOps, over ALL small workloads
   chosen in Init (DAG shapes x profiles x priorities x arrival ticks).  The contracts of
   SchedContracts.tla are invariants; `crash = ""` is C08 (the policy never makes the executor
   raise and runs to the last tick).

   A deterministic policy costs about two states per tick and workload, so the number of
   workloads - not the depth - is what the configuration bounds.                               *)
EXTENDS EudoxiaOps, SchedContracts, DagOps

CONSTANTS Policy,        \* "naive" | "overbook" | "priority-pool" | "priority" | "starter" (the scheduler written by `eudoxia init -s`)
          Cfg, Shapes, Prios, ArrTicks, NPipes, MaxTick
VARIABLES s, tick, phase, priv, cmds, g, last, wl, arr, sim
vars == <<s, tick, phase, priv, cmds, g, last, wl, arr, sim>>

Pol == INSTANCE SchedPolicies WITH Policy <- Policy, Cfg <- Cfg, NP <- NPipes, wl <- wl
Successful(st, p) == Pol!Successful(st, p)
PolicyInit == Pol!PolicyInit
PolicyRound(st, pv, new, results) == Pol!PolicyRound(st, pv, new, results)
NP == NPipes

ViewOf(st) == [ost |-> st.ost,
               pools |-> [k \in 1..Cfg.np |-> [acpu |-> st.pools[k].acpu, aram |-> st.pools[k].aram,
                            active |-> [j \in 1..Len(st.pools[k].active) |->
                                          LET c == st.ctr[st.pools[k].active[j]] IN
                                          [cid |-> st.pools[k].active[j], prio |-> wl[c.ops[1][1]].prio, can |-> c.can, ops |-> c.ops]]]]]
ResultsOf(st) == [j \in 1..Len(st.results) |->
                    LET c == st.ctr[st.results[j].cid] IN
                    [cid |-> st.results[j].cid, err |-> st.results[j].err, pool |-> st.results[j].pool, ops |-> c.ops, cpu |-> c.cpu, ram |-> c.ram]]
NoLast == [V |-> [ost |-> <<>>, pools |-> <<>>], R |-> [new |-> <<>>, results |-> <<>>, sus |-> <<>>, asg |-> <<>>], post |-> <<>>, G |-> InitGhost, valid |-> FALSE]

Init == /\ wl \in [1..NP -> {[prio |-> pr, arr |-> 0, ops |-> sh] : pr \in Prios, sh \in Shapes}]
        /\ arr \in [1..NP -> ArrTicks]
        /\ s = InitState(Cfg, wl) /\ tick = 0 /\ phase = "S" /\ priv = PolicyInit
        /\ cmds = [sus |-> <<>>, asg |-> <<>>] /\ g = InitGhost /\ last = NoLast
        /\ sim = [created |-> 0, nasg |-> 0, nsus |-> 0, nfail |-> 0, nsucc |-> 0,
                  done |-> [p \in 1..NP |-> -1], outstanding |-> {}, lastOpTick |-> [p \in 1..NP |-> -1]]

Round == /\ phase = "S" /\ s.crash = "" /\ tick < MaxTick
         /\ LET new == SelectSeq([p \in 1..NP |-> p], LAMBDA p : arr[p] = tick)
                res == ResultsOf(s)
                r   == PolicyRound(s, priv, new, res)
                V   == ViewOf(s)
                R   == [new |-> new, results |-> res, sus |-> r.sus, asg |-> r.asg]
                G   == GhostBefore(Cfg, wl, V, R, g)
            IN /\ s' = r.st /\ priv' = r.priv /\ cmds' = [sus |-> r.sus, asg |-> r.asg]
               /\ last' = [V |-> V, R |-> R, post |-> r.st.ost, G |-> G, valid |-> TRUE]
               /\ g' = GhostAfter(R, G)
               \* run_simulator's bookkeeping of the W and S phases
               /\ sim' = [sim EXCEPT !.created = @ + Len(new), !.outstanding = @ \cup Range(new),
                                     !.nasg = @ + Len(r.asg), !.nsus = @ + Len(r.sus)]
         /\ phase' = "E" /\ UNCHANGED <<tick, wl, arr>>
Exec  == /\ phase = "E" /\ s.crash = ""
         /\ LET post == ExecTick(Cfg, wl, s, cmds.sus, cmds.asg)
                \* the main loop sweeps the outstanding pipelines only in ticks that produced a result
                fin == IF post.crash = "" /\ post.results # <<>> THEN {p \in sim.outstanding : Successful(post, p)} ELSE {}
            IN /\ s' = post
               /\ sim' = [sim EXCEPT !.nfail = @ + Cardinality({j \in 1..Len(post.results) : post.results[j].err # ""}),
                                     !.nsucc = @ + Cardinality({j \in 1..Len(post.results) : post.results[j].err = ""}),
                                     !.done = [p \in 1..NP |-> IF p \in fin THEN tick ELSE sim.done[p]],
                                     !.outstanding = @ \ fin,
                                     !.lastOpTick = [p \in 1..NP |-> IF post.crash = "" /\ Successful(post, p) /\ ~Successful(s, p) THEN tick ELSE sim.lastOpTick[p]]]
         /\ phase' = "S" /\ tick' = tick + 1 /\ cmds' = [sus |-> <<>>, asg |-> <<>>] /\ last' = [last EXCEPT !.valid = FALSE]
         /\ UNCHANGED <<priv, g, wl, arr>>
\* optional (a field extKill of Cfg): somebody calls Container.kill(error) on a live container between two ticks; the policy sees
\* the failed operators in its next round, the failure result one tick later
KillFromOutside == /\ phase = "S" /\ s.crash = "" /\ tick < MaxTick /\ "extKill" \in DOMAIN Cfg /\ Cfg.extKill
        /\ \E k \in 1..Cfg.np : \E cid \in Range(s.pools[k].active) :
              /\ ~s.ctr[cid].done
              /\ s' = ExternalKill(Cfg, wl, s, cid, "evicted")
        /\ last' = [last EXCEPT !.valid = FALSE]
        /\ UNCHANGED <<tick, phase, priv, cmds, g, wl, arr, sim>>
Next == Round \/ Exec \/ KillFromOutside
Spec == Init /\ [][Next]_vars

(* ------------------------------------ properties ------------------------------------ *)
C08_NoCrash == s.crash = ""
C08_Admissible == last.valid => /\ C08_PoolsExist(Cfg, last.R) /\ C08_NotOversold(Cfg, last.V, last.R) /\ C08_WellFormed(Cfg, last.R)
                                /\ C08_NoDoubleAssignment(last.V, last.R) /\ C08_DependencyOrder(wl, last.V, last.R)
                                /\ C08_SuspendableOnly(Cfg, last.V, last.R)
C01_ParentsDone == s.crash = "" => \A o \in AllOpsOf(wl) : Ost(s, o) \in {"running", "completed"} => ParentsDone(wl, s, o)
C03_Conservation == s.crash = "" => \A k \in 1..Cfg.np : s.pools[k].acpu + AllocCpu(s, k) = Cfg.cpucap /\ s.pools[k].aram + AllocRam(s, k) = Cfg.ramcap

\* ---- C06: completion bookkeeping of the main loop ----
C06_NotWhileUnfinished == s.crash = "" => \A p \in 1..NP : sim.done[p] >= 0 => Successful(s, p)
\* counted in the tick the last operator completes - although the loop only looks in ticks with a result
C06_FinishTick == (s.crash = "" /\ phase = "S") => \A p \in 1..NP : (Successful(s, p) => sim.done[p] = sim.lastOpTick[p]) /\ (sim.done[p] >= 0 => sim.done[p] >= arr[p])
C06_CompleteOnce == [][\A p \in 1..NP : sim.done[p] >= 0 => sim'.done[p] = sim.done[p]]_vars
C06_Counters == s.crash = "" =>
   /\ sim.nasg = Len(s.ctr) + Len(cmds.asg)
   /\ sim.nfail = Cardinality({c \in 1..Len(s.ctr) : s.ctr[c].out = "failure"})
   /\ sim.nsucc = Cardinality({c \in 1..Len(s.ctr) : s.ctr[c].out = "success"})
   /\ sim.nsucc = SumSeq([k \in 1..Cfg.np |-> s.pools[k].ncomp])
   /\ sim.created = Cardinality({p \in 1..NP : arr[p] < tick \/ (arr[p] = tick /\ phase = "E")})
\* an uncontended pipeline (alone, multi-operator mode or chain, enough memory) needs exactly the ticks of its operators
\* witnesses (expected to be VIOLATED: they show that the situation is reachable in the bounded model)
W_NoSuspension == ~(last.valid /\ last.R.sus # <<>>)
W_NoRetry == ~(last.valid /\ \E j \in 1..Len(last.R.asg) : \E m \in 1..Len(last.R.asg[j].ops) : OstOf(last.V.ost, last.R.asg[j].ops[m]) = "failed")
W_NoContention == ~(last.valid /\ last.R.asg # <<>> /\ WaitingPending(wl, last.G, last.post) # {})
W_NoSuspensionFinished == \A k \in 1..Cfg.np : s.pools[k].suspended = <<>>
Inv16 == (Policy = "priority-pool" /\ last.valid) =>
   /\ C16_PoolOfPriority(wl, last.R) /\ C16_NoSuspensions(last.R) /\ C16_RetryTogether(last.V, last.R, last.G) /\ C16_HalfPoolCutoff(last.R, last.G)
Inv12 == (Policy \in {"priority", "priority-pool"} /\ last.valid) =>
   /\ C12_WorkConserving(Cfg, Policy, wl, last.V, last.R, last.G, last.post)
   /\ C12_StrictPriority(Cfg, Policy, wl, last.V, last.R, last.G, last.post)
   /\ C12_FifoFirstContainer(wl, last.G, last.R)
   /\ C12_SuspendRules(Cfg, Policy, wl, last.V, last.R, last.G, last.post)
Inv17 == (Policy = "naive" /\ last.valid) =>
   /\ C17_OnePerPool(Cfg, last.R) /\ C17_WholePool(last.V, last.R) /\ C17_NoSuspend(last.R)
   /\ C17_NoWorkAfterFailure(wl, last.V, last.R) /\ C17_SingleOpIsReady(Cfg, wl, last.V, last.R)
   /\ C17_FifoFirstContainer(last.G, last.R)
Inv18 == (Policy = "overbook" /\ last.valid) =>
   /\ C18_Shape(Cfg, wl, last.V, last.R) /\ C18_CpuBound(Cfg, last.V, last.R) /\ last.R.sus = <<>>
   /\ C18_ThreeStrikes(last.G, last.R) /\ C18_WorkConserving(Cfg, wl, last.V, last.R, last.G, last.post)
=============================================================================
