SPECIFICATION Spec
CONSTANTS
  MaxN = 6
INVARIANT C01_TopoPerm
INVARIANT C01_NoDuplicates
INVARIANT C01_QueueDisjoint
INVARIANT C01_Terminates
INVARIANT C01_FunctionalFormAgrees
