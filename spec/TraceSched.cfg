SPECIFICATION Spec
POSTCONDITION Consumed
