SPECIFICATION Spec
CONSTANTS
  WL <- WL_press
  Cfg <- Cfg_extkill1
  MaxTick = 4
  MaxAsg = 1
  MaxOps = 1
  CpuChoices = {1}
  RamChoices = {2,3}
  PoolChoices = {1}
  CollapseCrash = TRUE
  Admissible = FALSE
  CrossPipe = FALSE
INVARIANT C01_ParentsDone
INVARIANT C02_OneLiveContainer
INVARIANT C02_StatesMatchContainers
INVARIANT C03_Conservation
INVARIANT C03_NonNegative
INVARIANT C03_FreedOnce
INVARIANT C04_WithinAlloc
INVARIANT C04_PoolWithinCap
INVARIANT C04_ReportedIsSum
INVARIANT C04_KillJustified
INVARIANT C04_NoPoolKillWithoutOvercommit
INVARIANT C05_OnlyDocumentedRejections
INVARIANT C09_Accounting
INVARIANT C09_ResultShape
INVARIANT C10_CanIffBoundary
INVARIANT C10_SuspLeftPositive
INVARIANT C10_Duration
INVARIANT C11_VictimsAreCandidates
INVARIANT C11_NoKillIfFits
INVARIANT C11_HighestFirst
INVARIANT C11_Needed
INVARIANT C11_StopsWhenFits
PROPERTY C01_StartAfterParents
PROPERTY C01_RejectNotExecute
PROPERTY C02_LegalMoves
PROPERTY C02_CompletedFinal
PROPERTY C09_OutcomeOnce
PROPERTY C09_ResultIffEnded
PROPERTY C09_OneContainerPerAssignment
PROPERTY C10_OnlyAtBoundary
PROPERTY C10_NoProgressKeepsAllocation
PROPERTY C10_WorkIntact
