---------------------------- MODULE MC_ExecPrint ----------------------------
(* Prints the constants of the replay configurations so that the replayer builds the same workload. *)
EXTENDS MC_Exec
ASSUME PrintT(<<"CONST", "two_long", WL_two, Cfg_long>>)
ASSUME PrintT(<<"CONST", "press", WL_press, Cfg_oc1>>)
ASSUME PrintT(<<"CONST", "chain_long", WL_chain, Cfg_long>>)
ASSUME PrintT(<<"CONST", "diamond_long", WL_diamond, Cfg_long>>)
ASSUME PrintT(<<"CONST", "goon", WL_two, Cfg_goon>>)
ASSUME PrintT(<<"CONST", "goon_oc", WL_press, Cfg_goon_oc>>)
ASSUME PrintT(<<"CONST", "extkill", WL_two, Cfg_extkill>>)
ASSUME PrintT(<<"CONST", "extkill1", WL_press, Cfg_extkill1>>)
=============================================================================
