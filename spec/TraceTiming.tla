----------------------------- MODULE TraceTiming -----------------------------
(* C05 in closed form: one line = one container run on a real ResourcePool (any tick rate up to
   100000/s, any of the seven scaling laws, 1..64 cpus).  The harness proposes per-segment tick
   counts as CERTIFICATES; this monitor first decides, with the exact predicates of Timing.tla,
   that each certificate is the documented floor value, then compares the observed behaviour:

     C05.Order      operators complete one after another in the assigned order
     C05.Ticks      each operator lasts the summed tick count of its segments, at least one tick
                    (a segment exactly on a tick boundary may come out one tick short: band)
     C05.NoEarlyOom / C05.OomTick / C05.NoMissedOom
                    OOM in exactly the first tick whose demand exceeds the allocation
                    (demand exactly equal to the allocation in a growing I/O tick: either side)
     C05.PrefixSuffix   completed prefix, failed suffix; success <=> all completed
     C05.EndTick    a successful container ends in the tick its last operator completes
     C05.Mem        sampled memory equals the model's demand at that tick
     C05.NoRaise    the run does not raise                                                     *)
EXTENDS Timing, TLC, FiniteSets, Json, IOUtils

TraceLog == ndJsonDeserialize(IOEnv.TRACE_FILE)
VARIABLE l

RViol == 1 RLines == 2 RTraces == 3 ROk == 10 ROom == 11 RBandRuns == 12 RMem == 13 RZero == 14 ROomExact == 15 ROps == 16 RHighRate == 17 RUndecided == 18 RSusp == 19
Regs == {1, 2, 3} \cup 10..19
Bump(r, n) == TLCSet(r, TLCGet(r) + n)
Flag(e, name, ok, detail) == IF ok THEN TRUE ELSE PrintT(<<"VIOL", e.tid, 0, name, detail>>) /\ Bump(RViol, 1)
Max(a, b) == IF a > b THEN a ELSE b
RECURSIVE SumSeq(_)
SumSeq(q) == IF q = <<>> THEN 0 ELSE Head(q) + SumSeq(Tail(q))

(* ---- certificates ---- *)
SegCertOK(e, g) == IoOK(g.tio, g.read, e.tps) /\ CpuOK(g.tcpu, g.law, e.c2, g.bnum, g.bden, e.tps)
SegIoLo(e, g) == IF IoBand(g.tio, g.read, e.tps) THEN g.tio - 1 ELSE g.tio
SegCpuLo(e, g) == IF CpuBandLo(g.tcpu, g.law, e.c2, g.bnum, g.bden, e.tps) THEN g.tcpu - 1 ELSE g.tcpu
SegCpuHi(e, g) == IF CpuBandHi(g.tcpu, g.law, e.c2, g.bnum, g.bden, e.tps) THEN g.tcpu + 1 ELSE g.tcpu
SegBanded(e, g) == SegIoLo(e, g) # g.tio \/ SegCpuLo(e, g) # g.tcpu \/ SegCpuHi(e, g) # g.tcpu
OpLo(e, op) == Max(1, SumSeq([k \in 1..Len(op.segs) |-> SegIoLo(e, op.segs[k]) + SegCpuLo(e, op.segs[k])]))
OpHi(e, op) == Max(1, SumSeq([k \in 1..Len(op.segs) |-> op.segs[k].tio + SegCpuHi(e, op.segs[k])]))
OpBanded(e, op) == \E k \in 1..Len(op.segs) : SegBanded(e, op.segs[k])

(* ---- the exact timeline of an operator without banded segments ---- *)
AllZero(op) == \A k \in 1..Len(op.segs) : op.segs[k].tio + op.segs[k].tcpu = 0
\* effective <<io, cpu>> ticks of segment k (the forced tick of an all-zero operator is a CPU-phase tick of its last segment)
Eff(op, k) == IF AllZero(op) /\ k = Len(op.segs) THEN <<0, 1>> ELSE <<op.segs[k].tio, op.segs[k].tcpu>>
EffTot(op, k) == Eff(op, k)[1] + Eff(op, k)[2]
CumBefore(op, k) == SumSeq([j \in 1..(k - 1) |-> EffTot(op, j)])
\* segment containing offset x (0-based tick within the operator), and the tick index inside it
SegAt(op, x) == CHOOSE k \in 1..Len(op.segs) : CumBefore(op, k) <= x /\ x < CumBefore(op, k) + EffTot(op, k)
\* demand relations at (segment k, tick i) against allocation ramM (milli-GB)
DemGt(e, op, k, i) == LET g == op.segs[k] IN
   IF g.fixed >= 0 THEN g.fixed > e.ram
   ELSE IF i < Eff(op, k)[1] THEN GrowGt(i, e.tps, e.ram) ELSE g.read > e.ram
DemEqBand(e, op, k, i) == LET g == op.segs[k] IN g.fixed < 0 /\ i < Eff(op, k)[1] /\ GrowEq(i, e.tps, e.ram)
\* does any tick of segment k, up to (not including) tick `upto` of it, demand strictly more than the allocation?
SegOverBefore(e, op, k, upto) == LET g == op.segs[k] io == Eff(op, k)[1] IN
   IF upto <= 0 THEN FALSE
   ELSE IF g.fixed >= 0 THEN g.fixed > e.ram
   ELSE \/ (IF upto <= io THEN GrowGt(upto - 1, e.tps, e.ram) ELSE (io >= 1 /\ GrowGt(io - 1, e.tps, e.ram)))
        \/ (upto > io /\ g.read > e.ram)
OpOverBefore(e, op, x) ==      \* some tick with offset < x strictly over the allocation
   \E k \in 1..Len(op.segs) : SegOverBefore(e, op, k, IF x >= CumBefore(op, k) + EffTot(op, k) THEN EffTot(op, k) ELSE x - CumBefore(op, k))
OpTotal(op) == SumSeq([k \in 1..Len(op.segs) |-> EffTot(op, k)])

(* expected memory compared with an observed sample memU in units of 10 micro-GB (rounded): within one unit *)
MemOK(e, op, k, i, memU) == LET g == op.segs[k] IN
   IF g.fixed >= 0 THEN memU = g.fixed * 100
   ELSE IF i < Eff(op, k)[1]
        THEN /\ memU >= 1
             /\ ProdCmp(<<memU - 1, e.tps>>, <<i + 1, 2000000>>) <= 0
             /\ ProdCmp(<<memU + 1, e.tps>>, <<i + 1, 2000000>>) >= 0
        ELSE memU = g.read * 100

Check(e) ==
  LET n == Len(e.ops)
      done == e.obs.done                      \* tick count at which operator i completed, 0 = never
      ncompl == Cardinality({i \in 1..n : done[i] > 0})
      start(i) == IF i = 1 THEN 0 ELSE done[i - 1]
      certOK == \A i \in 1..n : \A k \in 1..Len(e.ops[i].segs) : SegCertOK(e, e.ops[i].segs[k])
      prefix == \A i \in 1..n : (done[i] > 0) <=> (i <= ncompl)
  IN
  /\ Bump(RTraces, 1) /\ Bump(ROps, n) /\ Bump(RHighRate, IF e.tps >= 1000 THEN 1 ELSE 0)
  /\ (IF certOK THEN TRUE ELSE PrintT(<<"PRECOND", e.tid, "certificate rejected">>))
  /\ Flag(e, "C05.NoRaise", e.obs.kind # "raise", e.obs.exc)
  /\ (certOK /\ e.obs.kind # "raise") =>
     /\ Bump(RBandRuns, IF \E i \in 1..n : OpBanded(e, e.ops[i]) THEN 1 ELSE 0)
     /\ Bump(RZero, Cardinality({i \in 1..n : AllZero(e.ops[i])}))
     /\ Flag(e, "C05.Order", prefix /\ \A i \in 2..ncompl : done[i] > done[i - 1], done)
     /\ prefix =>
        /\ Flag(e, "C05.Ticks", \A i \in 1..ncompl : LET d == done[i] - start(i) IN d >= OpLo(e, e.ops[i]) /\ d <= OpHi(e, e.ops[i]),
                <<"done", done, "lo", [i \in 1..n |-> OpLo(e, e.ops[i])], "hi", [i \in 1..n |-> OpHi(e, e.ops[i])]>>)
        \* no completed operator had a tick strictly over the allocation (it would have been killed there)
        /\ Flag(e, "C05.NoMissedOom", \A i \in 1..ncompl : OpBanded(e, e.ops[i]) \/ ~OpOverBefore(e, e.ops[i], OpTotal(e.ops[i])),
                <<"completed operator demanded more than the allocation", done, e.ram>>)
        /\ Flag(e, "C05.PrefixSuffix",
                /\ \A i \in 1..n : e.obs.ost[i] = (IF i <= ncompl THEN "completed" ELSE IF e.obs.kind = "oom" THEN "failed" ELSE e.obs.ost[i])
                /\ (e.obs.kind = "ok") <=> (ncompl = n), <<e.obs.kind, e.obs.ost>>)
        /\ (e.obs.kind = "ok" =>
              /\ Bump(ROk, 1)
              /\ Flag(e, "C05.EndTick", e.obs.endt = done[n], <<e.obs.endt, done>>))
        /\ (e.obs.kind = "oom" /\ ncompl < n =>
              LET f  == ncompl + 1
                  op == e.ops[f]
                  x  == e.obs.endt - 1 - start(f)          \* offset of the kill tick inside the failing operator
              IN /\ Bump(ROom, 1)
                 /\ IF OpBanded(e, op) THEN Bump(RUndecided, 1)
                    ELSE /\ Flag(e, "C05.OomInsideOperator", x >= 0 /\ x < OpTotal(op), <<"offset", x, "op ticks", OpTotal(op)>>)
                         /\ (x >= 0 /\ x < OpTotal(op)) =>
                              LET k == SegAt(op, x) i == x - CumBefore(op, k) IN
                              /\ Bump(ROomExact, IF DemGt(e, op, k, i) THEN 1 ELSE 0)
                              /\ Flag(e, "C05.OomTick", DemGt(e, op, k, i) \/ DemEqBand(e, op, k, i),
                                      <<"killed at offset", x, "segment", k, "tick", i, "demand does not exceed allocation", e.ram>>)
                              /\ Flag(e, "C05.NoEarlyOom", ~OpOverBefore(e, op, x),
                                      <<"an earlier tick already exceeded the allocation; killed at offset", x>>))
        \* memory samples <<tick (1-based count), micro-GB>> taken while the container was running
        /\ \A m \in 1..Len(e.obs.mem) :
             LET j == e.obs.mem[m][1] - 1       \* 0-based global tick
                 cand == {i \in 1..n : start(i) <= j /\ (IF done[i] > 0 THEN j < done[i] ELSE i = ncompl + 1)}
             IN (cand # {} /\ \A i \in cand : ~OpBanded(e, e.ops[i]) /\ j - start(i) < OpTotal(e.ops[i])) =>
                  LET i == CHOOSE i \in cand : TRUE op == e.ops[i] x == j - start(i) k == SegAt(op, x) IN
                  /\ Bump(RMem, 1)
                  /\ Flag(e, "C05.Mem", MemOK(e, op, k, x - CumBefore(op, k), e.obs.mem[m][2]), <<"tick", j, "op", i, "seg", k, "obs", e.obs.mem[m][2]>>)

(* C10 at any tick rate: one container written out after its first operator.  e.ram is the allocation in micro-GB, e.cert the harness's
   certificate for floor(ram/20 * tps), decided here exactly; e.ticks the calls of the pool between the Suspend and the end of the write-out.
   Exactly on a tick boundary the float quotient may come out one tick short (12 GB at 5 ticks/s): both are accepted, as in SuspTicksH. *)
CheckSusp(e) ==
  LET T == e.cert
      certOK == T >= 0 /\ ProdCmp(<<T, 20, 1000000>>, <<e.ram, e.tps>>) <= 0 /\ ProdCmp(<<T + 1, 20, 1000000>>, <<e.ram, e.tps>>) = 1
      onGrid == ProdCmp(<<T, 20, 1000000>>, <<e.ram, e.tps>>) = 0
      want == IF T < 1 THEN 1 ELSE T
  IN
  /\ Bump(RTraces, 1) /\ Bump(RSusp, 1) /\ Bump(RHighRate, IF e.tps >= 1000 THEN 1 ELSE 0)
  /\ (IF certOK THEN TRUE ELSE PrintT(<<"PRECOND", e.tid, "suspension certificate rejected">>))
  /\ Flag(e, "C10.NoRaise", e.exc = "", e.exc)
  /\ (certOK /\ e.exc = "") =>
       /\ Flag(e, "C10.Duration", e.ticks = want \/ (onGrid /\ T >= 2 /\ e.ticks = T - 1), <<"ram micro-GB", e.ram, "tps", e.tps, "floor(ram/20*tps)", T, "observed", e.ticks>>)
       /\ Flag(e, "C10.KeepsAllocationWhileWriting", e.kept, "free cpu/ram moved during the write-out")
       /\ Flag(e, "C10.FreedExactly", e.freed, "free cpu/ram after the write-out is not the capacity")
       /\ Flag(e, "C10.WorkIntact", e.ost = <<"completed", "pending">>, e.ost)

Init == l = 1 /\ \A r \in Regs : TLCSet(r, 0)
Next == /\ l <= Len(TraceLog)
        /\ (IF "kind" \in DOMAIN TraceLog[l] /\ TraceLog[l].kind = "susp" THEN CheckSusp(TraceLog[l]) ELSE Check(TraceLog[l]))
        /\ TLCSet(RLines, l) /\ l' = l + 1
Spec == Init /\ [][Next]_l
Consumed == /\ PrintT(<<"COUNT", "containers", TLCGet(RTraces), "operators", TLCGet(ROps), "success", TLCGet(ROk), "oom", TLCGet(ROom),
                        "oom_strict", TLCGet(ROomExact), "runs_with_band", TLCGet(RBandRuns), "oom_undecided_band", TLCGet(RUndecided),
                        "mem_samples", TLCGet(RMem), "zero_tick_operators", TLCGet(RZero), "rate_ge_1000", TLCGet(RHighRate), "suspensions_timed", TLCGet(RSusp)>>)
            /\ PrintT(<<"SUMMARY", "viol", TLCGet(RViol), "lines", TLCGet(RLines), "traces", TLCGet(RTraces)>>)
=============================================================================
