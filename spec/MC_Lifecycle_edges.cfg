SPECIFICATION Spec
CONSTANTS
  MaxN = 3
  PrintEdges = TRUE
INVARIANT C02_CountsAreHistogram
INVARIANT C01_RunningNeedsParents
PROPERTY C02_CompletedFinal
PROPERTY C02_OnlyTableMoves
PROPERTY C02_OneAtATime
