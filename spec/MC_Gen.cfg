SPECIFICATION Spec
CONSTANTS
  Mean = 2
  Draws <- DrawsA
  MaxTick = 9
INVARIANT C15_FirstEventAtZero
INVARIANT C15_AtLeastOneTickApart
INVARIANT C15_GapIsWaitPlusOne
INVARIANT C15_ProtoMonotone
