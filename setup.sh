#!/bin/sh
# Offline setup: parse every TLA+ module once (nothing is fetched or installed).
cd "$(dirname "$0")/spec" || exit 1
rc=0
for f in *.tla; do
  [ -f "$f" ] || continue
  out=$(java -DTLA-Library="$PWD" -cp /opt/veriftools/tla/tla2tools.jar:/opt/veriftools/tla/CommunityModules-deps.jar tla2sany.SANY "$f" 2>&1)
  if echo "$out" | grep -qiE "error|abort"; then echo "SANY failed on $f"; echo "$out" | tail -20; rc=1; fi
done
exit $rc
